From Coq Require Import List Arith Bool Lia.
Import ListNotations.

(* throwaway feasibility prototype: Park core, unbounded unparkers *)
Inductive loc := Running | InSlot | InRunq.
Inductive ppc := PIdle | PLoad | PSwap | PYield | PAfter | PDone.      (* user half *)
Inductive kpc := KNone | KStore | KRecheck | KTake.                     (* kernel half (subscribe) *)
Inductive upc := UIdle | USwap | UTake.

Record st := { tok : bool; where_ : loc; p : ppc; k : kpc; u : nat -> upc;
               parks_done : nat; unparks_done : nat }.

Definition upd (f : nat -> upc) i v := fun j => if Nat.eqb j i then v else f j.

Inductive act := AP | AK | AU (i : nat) | AW (* worker pops runq and resumes *).

Definition step (s : st) (a : act) : option st :=
  match a with
  | AP => if negb (match where_ s with Running => true | _ => false end) then None else
    match p s with
    | PIdle => Some {| tok := tok s; where_ := Running; p := PLoad; k := k s; u := u s; parks_done := parks_done s; unparks_done := unparks_done s |}
    | PLoad => if tok s
               then Some {| tok := false; where_ := Running; p := PDone; k := k s; u := u s; parks_done := parks_done s; unparks_done := unparks_done s |}
               else Some {| tok := tok s; where_ := Running; p := PSwap; k := k s; u := u s; parks_done := parks_done s; unparks_done := unparks_done s |}
    | PSwap => if tok s
               then Some {| tok := false; where_ := Running; p := PDone; k := k s; u := u s; parks_done := parks_done s; unparks_done := unparks_done s |}
               else Some {| tok := false; where_ := Running; p := PYield; k := k s; u := u s; parks_done := parks_done s; unparks_done := unparks_done s |}
    | PYield => match k s with
                | KNone => Some {| tok := tok s; where_ := Running; p := PAfter; k := KStore; u := u s; parks_done := parks_done s; unparks_done := unparks_done s |}
                | _ => None end
    | PAfter => match k s with
                | KNone => Some {| tok := false; where_ := Running; p := PDone; k := KNone; u := u s; parks_done := parks_done s; unparks_done := unparks_done s |}
                | _ => None end   (* user half only runs once resumed; see AK/AW *)
    | PDone => Some {| tok := tok s; where_ := Running; p := PIdle; k := k s; u := u s; parks_done := S (parks_done s); unparks_done := unparks_done s |}
    end
  | AK => match k s with
    | KNone => None
    | KStore => Some {| tok := tok s; where_ := InSlot; p := p s; k := KRecheck; u := u s; parks_done := parks_done s; unparks_done := unparks_done s |}
    | KRecheck => if tok s
                  then Some {| tok := tok s; where_ := where_ s; p := p s; k := KTake; u := u s; parks_done := parks_done s; unparks_done := unparks_done s |}
                  else Some {| tok := tok s; where_ := where_ s; p := p s; k := KNone; u := u s; parks_done := parks_done s; unparks_done := unparks_done s |}
    | KTake => match where_ s with
               | InSlot => Some {| tok := tok s; where_ := Running; p := p s; k := KNone; u := u s; parks_done := parks_done s; unparks_done := unparks_done s |}
               | _ => Some {| tok := tok s; where_ := where_ s; p := p s; k := KNone; u := u s; parks_done := parks_done s; unparks_done := unparks_done s |}
               end
    end
  | AU i => match u s i with
    | UIdle => Some {| tok := tok s; where_ := where_ s; p := p s; k := k s; u := upd (u s) i USwap; parks_done := parks_done s; unparks_done := unparks_done s |}
    | USwap => if tok s
               then Some {| tok := true; where_ := where_ s; p := p s; k := k s; u := upd (u s) i UIdle; parks_done := parks_done s; unparks_done := S (unparks_done s) |}
               else Some {| tok := true; where_ := where_ s; p := p s; k := k s; u := upd (u s) i UTake; parks_done := parks_done s; unparks_done := unparks_done s |}
    | UTake => match where_ s with
               | InSlot => Some {| tok := tok s; where_ := InRunq; p := p s; k := k s; u := upd (u s) i UIdle; parks_done := parks_done s; unparks_done := S (unparks_done s) |}
               | _ => Some {| tok := tok s; where_ := where_ s; p := p s; k := k s; u := upd (u s) i UIdle; parks_done := parks_done s; unparks_done := S (unparks_done s) |}
               end
    end
  | AW => match where_ s, k s with
          | InRunq, KNone => Some {| tok := tok s; where_ := Running; p := p s; k := k s; u := u s; parks_done := parks_done s; unparks_done := unparks_done s |}
          | _, _ => None
          end
  end.

Definition init : st := {| tok := false; where_ := Running; p := PIdle; k := KNone; u := fun _ => UIdle; parks_done := 0; unparks_done := 0 |}.

Inductive Reach : st -> Prop :=
| R0 : Reach init
| RS s a s' : Reach s -> step s a = Some s' -> Reach s'.

(* the coroutine sits in the slot with the token set only while somebody is about to take it *)
Definition pending_taker (s : st) : Prop :=
  k s = KRecheck \/ k s = KTake \/ exists i, u s i = UTake.

Definition Inv (s : st) : Prop :=
  (where_ s = InSlot -> tok s = true -> pending_taker s) /\
  (where_ s = InSlot -> p s = PAfter) /\
  (where_ s = InRunq -> p s = PAfter /\ k s <> KStore) /\
  (k s = KStore -> where_ s = Running /\ p s = PAfter) /\
  (k s = KTake -> tok s = true \/ where_ s <> InSlot) /\
  (k s <> KNone -> p s = PAfter).

Lemma upd_same f i v : upd f i v i = v.
Proof. unfold upd. now rewrite Nat.eqb_refl. Qed.
Lemma upd_other f i j v : j <> i -> upd f i v j = f j.
Proof. unfold upd. intros H. destruct (Nat.eqb_spec j i); congruence. Qed.

Lemma inv_init : Inv init.
Proof. unfold Inv, init; cbn; repeat split; intros; try discriminate; try congruence. Qed.


Lemma ex_upd_keep f i v : (exists j, f j = UTake) -> f i <> UTake -> exists j, upd f i v j = UTake.
Proof. intros [j H] N. exists j. rewrite upd_other; auto. intro; subst; congruence. Qed.
Lemma ex_upd_new f i : exists j, upd f i UTake j = UTake.
Proof. exists i. apply upd_same. Qed.

Ltac spec :=
  repeat match goal with
  | H : ?a = ?a -> _ |- _ => specialize (H eq_refl)
  | H : ?A -> _, H' : ?A |- _ => specialize (H H')
  | H : ?x <> ?y -> _ |- _ => let N := fresh "N" in assert (N : x <> y) by congruence; specialize (H N)
  end.
Ltac brk := repeat match goal with
  | H : _ /\ _ |- _ => destruct H
  | H : exists _, _ |- _ => destruct H
  end.
Ltac fin :=
  try discriminate; try congruence; try tauto;
  try (left; congruence); try (right; congruence);
  try (right; right; apply ex_upd_new);
  try (right; right; apply ex_upd_keep; [first [assumption | eexists; eassumption] | congruence]);
  try (intro; spec; brk; congruence).
Ltac crunch :=
  unfold Inv, pending_taker in *; cbn in *; brk; spec; brk;
  repeat split; intros; spec; brk;
  repeat match goal with
  | H : _ \/ _ |- _ => destruct H
  end; fin.

Lemma inv_step s a s' : Inv s -> step s a = Some s' -> Inv s'.
Proof.
  intros I H.
  destruct a as [| | i |]; cbn in H.
  - destruct (where_ s) eqn:W; cbn in H; try discriminate.
    destruct (p s) eqn:P; destruct (tok s) eqn:T; destruct (k s) eqn:K; try discriminate;
      inversion H; subst; clear H; crunch.
  - destruct (k s) eqn:K; try discriminate;
    destruct (tok s) eqn:T; destruct (where_ s) eqn:W;
      inversion H; subst; clear H; crunch.
  - destruct (u s i) eqn:U; destruct (tok s) eqn:T; destruct (where_ s) eqn:W;
      inversion H; subst; clear H; crunch.
  - destruct (where_ s) eqn:W; try discriminate. destruct (k s) eqn:K; try discriminate.
    inversion H; subst; clear H; crunch.
Qed.

Theorem inv_reach s : Reach s -> Inv s.
Proof. induction 1; eauto using inv_init, inv_step. Qed.

(* no lost wake-up: a quiescent state never has the coroutine suspended with the token set *)
Definition Quiescent (s : st) : Prop := k s = KNone /\ forall i, u s i = UIdle.
Theorem no_lost_wakeup s : Reach s -> Quiescent s -> where_ s = InSlot -> tok s = false.
Proof.
  intros R [Qk Qu] W. destruct (tok s) eqn:T; auto.
  destruct (inv_reach s R) as (I1 & _). destruct (I1 W T) as [A|[A|[j A]]]; try congruence.
  all: try (rewrite Qu in A; discriminate).
Qed.
Print Assumptions no_lost_wakeup.
