#!/usr/bin/env python3
"""Design aid (NOT a proof): explicit-state exploration of may::sync::Mutex + SyncBlocker +
Blocker-token spec on a small instance, to compare candidate repairs of finding F1.
variant 0 = code as is; 1 = b_ignore path does not set `release`;
variant 2 = variant 1 + SyncBlocker::unpark stores `unparked` before waking the blocker."""
import sys
from collections import deque

VAR = int(sys.argv[1]) if len(sys.argv) > 1 else 0
# actors: (kind, ignore_cancel, cancellable)
ACTORS = [("co", True, True), ("th", False, False), ("co", False, True)]
if len(sys.argv) > 2: ACTORS = ACTORS[:int(sys.argv[2])]
N = len(ACTORS)

# state: (cnt, q(tuple of blocker ids = actor ids), tok[N], parked[N], reason[N], unp[N], rel[N], canc[N], pc[N], aux[N], rounds[N])
def init():
    z = tuple([0]*N); f = tuple([False]*N)
    return (0, (), f, f, tuple([None]*N), f, f, f, tuple(["L0"]*N), tuple([None]*N), tuple([0]*N))

def setv(t, i, v): return t[:i] + (v,) + t[i+1:]

def blocker_unpark(tok, parked, reason, w):
    tok = setv(tok, w, True)
    if parked[w] and reason[w] is None: reason = setv(reason, w, "U")
    return tok, reason

def steps(s):
    cnt, q, tok, parked, reason, unp, rel, canc, pc, aux, rounds = s
    out = []
    for a in range(N):
        kind, ign, cancellable = ACTORS[a]
        p = pc[a]
        def mk(**kw):
            d = dict(cnt=cnt, q=q, tok=tok, parked=parked, reason=reason, unp=unp, rel=rel, canc=canc, pc=pc, aux=aux, rounds=rounds)
            d.update(kw)
            return (d['cnt'], d['q'], d['tok'], d['parked'], d['reason'], d['unp'], d['rel'], d['canc'], d['pc'], d['aux'], d['rounds'])
        def goto(n, **kw): return mk(pc=setv(pc, a, n), **kw)
        if p == "L0":   # try_lock CAS (fresh blocker per lock call: reset flags)
            if cnt == 0: out.append((a, goto("CS", cnt=1)))
            else: out.append((a, goto("L1", tok=setv(tok,a,False), unp=setv(unp,a,False), rel=setv(rel,a,False))))
        elif p == "L1": out.append((a, goto("L2", q=q+(a,))))
        elif p == "L2":
            if cnt == 0: out.append((a, goto("H1", cnt=1, aux=setv(aux,a,("lock",)))))
            else: out.append((a, goto("P", cnt=cnt+1)))
        # hand-off agent: H1 pop, H2 blocker.unpark / flag, H3 flag / blocker.unpark, H4 take_release
        elif p == "H1":
            if not q: out.append((a, goto("ERR_NULL_BLOCKER")))
            else: out.append((a, goto("H2", q=q[1:], aux=setv(aux,a,aux[a]+(q[0],)))))
        elif p == "H2":
            w = aux[a][-1]
            if VAR == 2: out.append((a, goto("H3", unp=setv(unp,w,True))))
            else:
                t2, r2 = blocker_unpark(tok, parked, reason, w); out.append((a, goto("H3", tok=t2, reason=r2)))
        elif p == "H3":
            w = aux[a][-1]
            if VAR == 2:
                t2, r2 = blocker_unpark(tok, parked, reason, w); out.append((a, goto("H4", tok=t2, reason=r2)))
            else: out.append((a, goto("H4", unp=setv(unp,w,True))))
        elif p == "H4":
            w = aux[a][-1]; ctx = aux[a][0]
            if rel[w]:   # take_release true -> unlock again (same agent)
                out.append((a, goto("U0", rel=setv(rel,w,False), aux=setv(aux,a,(ctx,)))))
            else:
                nxt = {"lock":"P", "unlock":"DONE_UNLOCK", "cancel_unlock":"EXIT"}[ctx]
                out.append((a, goto(nxt, aux=setv(aux,a,None))))
        elif p == "U0":  # unlock: fetch_sub
            ctx = aux[a][0] if aux[a] else "unlock"
            if cnt > 1: out.append((a, goto("H1", cnt=cnt-1, aux=setv(aux,a,(ctx,)))))
            else:
                nxt = {"lock":"P", "unlock":"DONE_UNLOCK", "cancel_unlock":"EXIT"}[ctx]
                out.append((a, goto(nxt, cnt=cnt-1, aux=setv(aux,a,None))))
        elif p == "P":   # park_enter
            if kind == "co" and canc[a] and not ign:     # yield_with short-cut: returns Canceled, token cleared
                out.append((a, goto("C1", tok=setv(tok,a,False))))
            elif tok[a]: out.append((a, goto("CS", tok=setv(tok,a,False))))
            else: out.append((a, goto("W", parked=setv(parked,a,True), reason=setv(reason,a,None))))
        elif p == "W":   # suspended: resumes when a reason exists; token cleared whatever the reason
            if reason[a] is not None:
                nxt = "CS" if reason[a] == "U" else "C1"
                out.append((a, goto(nxt, parked=setv(parked,a,False), reason=setv(reason,a,None), tok=setv(tok,a,False))))
        elif p == "C1":  # Canceled branch: is_unparked?
            if unp[a]:
                if ign: out.append((a, goto("CS")))
                else: out.append((a, goto("U0", aux=setv(aux,a,("cancel_unlock",)))))
            else:
                if ign and VAR >= 1: out.append((a, goto("P")))          # repaired: keep waiting, no release
                else: out.append((a, goto("C2", rel=setv(rel,a,True))))   # set_release
        elif p == "C2":  # re-check is_unparked && take_release
            if unp[a] and rel[a]:
                if ign: out.append((a, goto("CS", rel=setv(rel,a,False))))
                else: out.append((a, goto("U0", rel=setv(rel,a,False), aux=setv(aux,a,("cancel_unlock",)))))
            else:
                out.append((a, goto("P" if ign else "EXIT")))
        elif p == "CS":
            out.append((a, goto("U0", aux=setv(aux,a,("unlock",)))))
        elif p == "DONE_UNLOCK":
            if rounds[a] < 0: out.append((a, goto("L0", rounds=setv(rounds,a,rounds[a]+1))))
        # environment: cancel() on a cancellable coroutine (any time, repeatedly allowed once)
        if cancellable and not canc[a] and pc[a] not in ("EXIT","DONE_UNLOCK"):
            r2 = reason
            if parked[a] and reason[a] is None: r2 = setv(reason, a, "C")
            out.append(("cancel%d" % a, mk(canc=setv(canc,a,True), reason=r2)))
        elif cancellable and canc[a] and ign and parked[a] and reason[a] is None and aux[a] != "c2":
            # a second cancel() call while cancel is disabled still wakes the parked coroutine
            pass
    return out

def main():
    s0 = init(); seen = {s0: None}; dq = deque([s0]); viol = None; dead = None; null = None
    while dq:
        s = dq.popleft()
        pcs = s[8]
        if sum(1 for p in pcs if p == "CS") > 1 and viol is None: viol = s
        if any(p == "ERR_NULL_BLOCKER" for p in pcs) and null is None: null = s
        nx = steps(s)
        prog = [t for (who, t) in nx if not str(who).startswith("cancel")]
        if not prog and any(p not in ("EXIT","DONE_UNLOCK") for p in pcs) and dead is None: dead = s
        for who, t in nx:
            if t not in seen: seen[t] = (s, who); dq.append(t)
    def path(s):
        p = []
        while seen[s] is not None: s, who = seen[s]; p.append(who)
        return list(reversed(p))
    print(f"variant {VAR}, actors {ACTORS}: {len(seen)} states")
    print("  mutual exclusion:", "VIOLATED, schedule " + str(path(viol)) if viol else "holds on this instance")
    print("  stranded waiter :", "DEADLOCK pcs=%s cnt=%d, schedule %s" % (dead[8], dead[0], path(dead)) if dead else "none on this instance")
    print("  null blocker    :", "REACHED " + str(path(null)) if null else "unreachable on this instance")
main()
