// prototype deterministic scheduler for the real may runtime (throwaway)
use may::verif::Hooks;
use std::cell::Cell;
use std::panic::Location;
use std::sync::{Arc, Condvar, Mutex};

#[derive(Clone, Debug, PartialEq)]
enum TS { Ready, Blocked { key: usize, deadline: Option<u64> }, Done }
struct T { name: String, st: TS, woken: bool }
struct State { cur: usize, threads: Vec<T>, now: u64, rng: u64, tokens: Vec<usize>, trace: Vec<String>, switches: usize, idle_advances: usize }
struct Ctl { m: Mutex<State>, cv: Condvar }
thread_local! { static TID: Cell<usize> = const { Cell::new(usize::MAX) }; }
fn tid() -> usize { TID.with(|t| t.get()) }

impl State {
    fn next_rand(&mut self) -> u64 { self.rng ^= self.rng << 13; self.rng ^= self.rng >> 7; self.rng ^= self.rng << 17; self.rng }
    // pick who runs next; may advance virtual time
    fn pick(&mut self) -> usize {
        loop {
            let ready: Vec<usize> = (0..self.threads.len()).filter(|&i| self.threads[i].st == TS::Ready).collect();
            if !ready.is_empty() {
                let r = self.next_rand() as usize % ready.len();
                return ready[r];
            }
            // nobody ready: advance time to the earliest deadline
            let mut best: Option<(u64, usize)> = None;
            for (i, t) in self.threads.iter().enumerate() {
                if let TS::Blocked { deadline: Some(d), .. } = t.st { if best.map_or(true, |(bd, _)| d < bd) { best = Some((d, i)); } }
            }
            match best {
                Some((d, i)) => {
                    let only_workers = self.threads[i].name.starts_with("rt");
                    if only_workers { self.idle_advances += 1; } else { self.idle_advances = 0; }
                    if self.idle_advances > 50 { self.dump("DEADLOCK (only runtime polling left)"); std::process::exit(3); }
                    if d > self.now { self.now = d; }
                    self.threads[i].st = TS::Ready; self.threads[i].woken = false;
                }
                None => { self.dump("DEADLOCK (all blocked, no timer)"); std::process::exit(3); }
            }
        }
    }
    fn dump(&self, why: &str) {
        println!("{why} at t={}ns", self.now);
        for (i, t) in self.threads.iter().enumerate() { println!("  thread {i} {} {:?}", t.name, t.st); }
    }
}
impl Ctl {
    // give the baton to the chosen thread and wait until it comes back
    fn switch<'a>(&'a self, mut g: std::sync::MutexGuard<'a, State>, me: usize) -> std::sync::MutexGuard<'a, State> {
        let nxt = g.pick();
        if nxt != me { g.switches += 1; g.cur = nxt; self.cv.notify_all(); }
        while g.cur != me { g = self.cv.wait(g).unwrap(); }
        g
    }
}
fn actor() -> String {
    if may::coroutine::is_coroutine() { may::coroutine::current().name().unwrap_or("co?").to_string() } else { String::new() }
}
impl Hooks for Ctl {
    fn pre(&self, _loc: &'static Location<'static>, _kind: &'static str) {
        let me = tid(); if me == usize::MAX { return; }
        let g = self.m.lock().unwrap();
        drop(self.switch(g, me));
    }
    fn post(&self, loc: &'static Location<'static>, kind: &'static str, val: u64) {
        let me = tid(); if me == usize::MAX { return; }
        let a = actor();
        let mut g = self.m.lock().unwrap();
        let now = g.now;
        g.trace.push(format!("t{me} {a:<4} {}:{} {kind} -> {val} @{now}", loc.file().rsplit('/').next().unwrap(), loc.line()));
    }
    fn now_ns(&self) -> u64 { self.m.lock().unwrap().now }
    fn block(&self, key: usize, deadline: Option<u64>) -> bool {
        let me = tid();
        let mut g = self.m.lock().unwrap();
        if let Some(p) = g.tokens.iter().position(|&k| k == key) { g.tokens.swap_remove(p); return true; }
        g.threads[me].st = TS::Blocked { key, deadline }; g.threads[me].woken = false;
        let g = self.switch(g, me);
        g.threads[me].woken
    }
    fn wake(&self, key: usize) {
        let mut g = self.m.lock().unwrap();
        for t in g.threads.iter_mut() {
            if let TS::Blocked { key: k, .. } = t.st { if k == key { t.st = TS::Ready; t.woken = true; return; } }
        }
        if !g.tokens.contains(&key) { g.tokens.push(key); }
    }
    fn spawn(&self, name: String, f: Box<dyn FnOnce() + Send + 'static>) {
        let idx = { let mut g = self.m.lock().unwrap(); g.threads.push(T { name, st: TS::Ready, woken: false }); g.threads.len() - 1 };
        let ctl: &'static Ctl = unsafe { &*(self as *const Ctl) };
        std::thread::spawn(move || {
            TID.with(|t| t.set(idx));
            { let mut g = ctl.m.lock().unwrap(); while g.cur != idx { g = ctl.cv.wait(g).unwrap(); } }
            f();
            let mut g = ctl.m.lock().unwrap();
            g.threads[idx].st = TS::Done;
            let nxt = g.pick(); g.cur = nxt; ctl.cv.notify_all();
        });
    }
    fn thread_key(&self) -> usize { 0x2000 + tid() }
}

fn main() {
    let seed: u64 = std::env::args().nth(1).map(|s| s.parse().unwrap()).unwrap_or(1);
    let ctl: &'static Ctl = Box::leak(Box::new(Ctl { m: Mutex::new(State { cur: 0, threads: vec![T { name: "main".into(), st: TS::Ready, woken: false }], now: 0, rng: seed.wrapping_mul(0x9E3779B97F4A7C15) | 1, tokens: vec![], trace: vec![], switches: 0, idle_advances: 0 }), cv: Condvar::new() }));
    TID.with(|t| t.set(0));
    may::verif::install(ctl);
    may::config().set_workers(2).set_stack_size(0x4000);

    // scenario: coroutine "p" parks twice with timeout; thread "u" unparks once; semaphore timeout race
    let sem = Arc::new(may::sync::Semphore::new(0));
    let s2 = sem.clone();
    let h = unsafe { may::coroutine::Builder::new().name("p".into()).spawn(move || {
        let a = s2.wait_timeout(std::time::Duration::from_millis(5));
        let b = s2.wait_timeout(std::time::Duration::from_millis(5));
        (a, b)
    }).unwrap() };
    let s3 = sem.clone();
    ctl.spawn("u".into(), Box::new(move || { may::verif::thread::sleep(std::time::Duration::from_millis(5)); s3.post(); }));
    let r = h.join().unwrap();
    let g = ctl.m.lock().unwrap();
    println!("seed={seed} result={:?} vtime={}ns switches={} events={}", r, g.now, g.switches, g.trace.len());
    if std::env::args().nth(2).is_some() { for l in &g.trace { println!("  {l}"); } }
    let mut hsh: u64 = 1469598103934665603; for l in &g.trace { for b in l.bytes() { hsh = (hsh ^ b as u64).wrapping_mul(1099511628211); } }
    println!("trace-hash={hsh:016x}");
    std::process::exit(0);
}
