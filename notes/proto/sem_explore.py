#!/usr/bin/env python3
"""Design aid (NOT a proof): explicit-state exploration of may::sync::Semphore + SyncBlocker +
Blocker-token spec on small instances (timeouts may fire at any time after the call),
for both orders of SyncBlocker::unpark (ORDER=0: token then flag, as in the code; 1: flag then token)."""
import sys
from collections import deque
ORDER = int(sys.argv[1]) if len(sys.argv) > 1 else 0
INIT = int(sys.argv[2]) if len(sys.argv) > 2 else 0
PROGS = (sys.argv[3] if len(sys.argv) > 3 else "W,T,P,P").split(",")   # W wait, T wait_timeout, P post, Y try_wait
N = len(PROGS)
def upd(t, i, v): return t[:i] + (v,) + t[i+1:]
def init():
    f = tuple([False]*N)
    # cnt, q, tok, parked, reason, unp, rel, pc, aux, pos, succ, posts_done, timed_out
    return (INIT, (), f, f, tuple([None]*N), f, f, tuple(["idle"]*N), tuple([None]*N), tuple([0]*N), 0, 0, 0)
def bunpark(tok, parked, reason, w):
    tok = upd(tok, w, True)
    if parked[w] and reason[w] is None: reason = upd(reason, w, "U")
    return tok, reason
def steps(s):
    cnt, q, tok, parked, reason, unp, rel, pc, aux, pos, succ, posts, touts = s
    out = []
    for a in range(N):
        p = pc[a]
        def mk(**k):
            d = dict(cnt=cnt, q=q, tok=tok, parked=parked, reason=reason, unp=unp, rel=rel, pc=pc, aux=aux, pos=pos, succ=succ, posts=posts, touts=touts); d.update(k)
            return tuple(d[x] for x in ("cnt","q","tok","parked","reason","unp","rel","pc","aux","pos","succ","posts","touts"))
        def go(n, **k): return mk(pc=upd(pc, a, n), **k)
        if p == "idle":
            if pos[a] < len(PROGS[a]):
                op = PROGS[a][pos[a]]
                if op in "WT": out.append((a, go("w0", pos=upd(pos,a,pos[a]+1), aux=upd(aux,a,(op,)), tok=upd(tok,a,False), unp=upd(unp,a,False), rel=upd(rel,a,False), reason=upd(reason,a,None))))
                elif op == "P": out.append((a, go("p0", pos=upd(pos,a,pos[a]+1), aux=upd(aux,a,("P","ret_user")))))
                elif op == "Y": out.append((a, go("y0", pos=upd(pos,a,pos[a]+1))))
        elif p in ("w0", "y0"):     # try_wait (CAS loop collapsed: one atomic attempt)
            if cnt > 0: out.append((a, go("idle", cnt=cnt-1, succ=succ+1)))
            else: out.append((a, go("w1" if p == "w0" else "idle")))
        elif p == "w1": out.append((a, go("w2", q=q+(a,))))
        elif p == "w2":
            if cnt > 0: out.append((a, go("k1", cnt=cnt-1, aux=upd(aux,a,aux[a]+("ret_pk",)))))   # fetch_sub > 0: wakeup_one, then park
            else: out.append((a, go("pk", cnt=cnt-1)))
        elif p == "p0":             # post(): fetch_add
            if cnt < 0: out.append((a, go("k1", cnt=cnt+1)))
            else: out.append((a, go("ret", cnt=cnt+1)))
        elif p == "ret":            # return from post()/wakeup_one() to the caller frame
            fr = aux[a][-1]; rest = aux[a][:-1]
            if fr == "ret_pk": out.append((a, go("pk", aux=upd(aux,a,rest))))
            elif fr == "ret_user": out.append((a, go("idle", aux=upd(aux,a,None))))
            elif fr == "ret_err": out.append((a, go("idle", aux=upd(aux,a,None), touts=touts+1)))
            elif fr == "ret_ret": out.append((a, go("ret", aux=upd(aux,a,rest))))
        elif p == "k1":
            if not q: out.append((a, go("ERR_NULL")))
            else: out.append((a, go("k2", q=q[1:], aux=upd(aux,a,aux[a]+(("w", q[0]),)))))
        elif p in ("k2", "k3"):
            w = aux[a][-1][1]; first = (p == "k2")
            do_token = (first and ORDER == 0) or ((not first) and ORDER == 1)
            if do_token:
                t2, r2 = bunpark(tok, parked, reason, w); out.append((a, go("k3" if first else "k4", tok=t2, reason=r2)))
            else: out.append((a, go("k3" if first else "k4", unp=upd(unp,w,True))))
        elif p == "k4":
            w = aux[a][-1][1]; base = aux[a][:-1]
            if rel[w]: out.append((a, go("p0", rel=upd(rel,w,False), aux=upd(aux,a,base+("ret_ret",)))))     # self.post() again, then return
            else: out.append((a, go("ret", aux=upd(aux,a,base))))
        elif p == "pk":     # park_enter
            if tok[a]: out.append((a, go("idle", tok=upd(tok,a,False), succ=succ+1)))
            else: out.append((a, go("wt", parked=upd(parked,a,True), reason=upd(reason,a,None))))
        elif p == "wt":
            if reason[a] is not None:
                nxt = "ok" if reason[a] == "U" else "e1"
                out.append((a, go(nxt, parked=upd(parked,a,False), reason=upd(reason,a,None), tok=upd(tok,a,False))))
            elif aux[a][0] == "T":      # timer may fire at any time
                out.append((a, mk(reason=upd(reason,a,"T"))))
        elif p == "ok": out.append((a, go("idle", succ=succ+1)))
        elif p == "e1":     # error path: is_unparked ?
            if unp[a]: out.append((a, go("p0", aux=upd(aux,a,aux[a]+("ret_err",)))))
            else: out.append((a, go("e2", rel=upd(rel,a,True))))
        elif p == "e2":
            if unp[a] and rel[a]: out.append((a, go("p0", rel=upd(rel,a,False), aux=upd(aux,a,aux[a]+("ret_err",)))))
            else: out.append((a, go("idle", touts=touts+1)))
    return out
def fix_E(s):   # posts from the error path are not user posts: normalise counters
    return s
def main():
    s0 = init(); seen = {s0: None}; dq = deque([s0]); bad = None
    while dq:
        s = dq.popleft(); cnt, q, tok, parked, reason, unp, rel, pc, aux, pos, succ, posts, touts = s
        nx = steps(s)
        if any(p == "ERR_NULL" for p in pc): bad = ("null blocker", s); break
        if not nx:
            user_posts = sum(pr.count("P") for pr in PROGS)
            waits = sum(pr.count("W") + pr.count("T") + pr.count("Y") for pr in PROGS)
            parked_for_ever = [a for a in range(N) if pc[a] == "wt"]
            value = max(cnt, 0)
            # conservation at quiescence; and nobody parked while permits suffice
            if parked_for_ever and INIT + user_posts - succ > 0: bad = ("waiter stranded although permits suffice", s); break
            if not parked_for_ever and value != max(INIT + user_posts - succ, 0): bad = (f"value {value} != init+posts-succ {INIT + user_posts - succ}", s); break
            if succ > INIT + user_posts: bad = ("more successes than permits", s); break
        for w, t in nx:
            if t not in seen: seen[t] = (s, w); dq.append(t)
    if bad:
        p = []; t = bad[1]
        while seen[t] is not None: t, w = seen[t]; p.append(w)
        print(f"ORDER={ORDER} init={INIT} {PROGS}: FAIL {bad[0]}; pcs={bad[1][7]} cnt={bad[1][0]} schedule {list(reversed(p))}")
    else: print(f"ORDER={ORDER} init={INIT} {PROGS}: {len(seen)} states; permit conservation at quiescence, no stranded waiter, no null blocker: OK on this instance")
main()
