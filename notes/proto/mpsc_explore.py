#!/usr/bin/env python3
"""Design aid (NOT a proof): explicit-state exploration of may_queue::mpsc::Queue (block size B,
one transition per shared access) on a small instance, to test the C03 statements and the
linearisation-point assignment (push LP = reserving CAS, for the last slot of a block = the
`ready` store; pop LP = head.index store; empty answers need an instant with empty abstract queue)."""
import sys
from collections import deque
B = 2
NPUSH = [int(x) for x in (sys.argv[1] if len(sys.argv) > 1 else "2,2").split(",")]   # pushes per producer
NP = len(NPUSH); NPOP = sum(NPUSH) + 1
def T(x): return tuple(x)
def upd(t, i, v): return t[:i] + (v,) + t[i+1:]
# block: (start, slots((val,ready),..), next, state) state: 'live' | 'old' | 'freed'
def newblock(start): return (start, T([(None, 0)] * B), None, 'live')
def init():
    blocks = (newblock(0)[:2] + (1, 'live'), newblock(B))
    # (blocks, tail(blk,idx,closing), head_idx, head_blk, old_block, prod pcs, prod locals, prod remaining, cons pc, cons loc, pops_left, absq, popped, saw_empty)
    return (blocks, (0, 0, False), 0, 0, None, T(["a0"] * NP), T([None] * NP), T(NPUSH), "idle", None, NPOP, (), (), False)
def live(blocks, b, who):
    if blocks[b][3] == 'freed': raise RuntimeError(f"use-after-free of block {b} by {who}")
def setslot(blocks, b, i, val=None, ready=None):
    st, slots, nx, s = blocks[b]; v, r = slots[i]
    slots = upd(slots, i, (val if val is not None else v, ready if ready is not None else r))
    return upd(blocks, b, (st, slots, nx, s))
def steps(S):
    blocks, tail, hidx, hblk, oldb, ppc, ploc, prem, cpc, cloc, pops, absq, popped, saw = S
    out = []
    def mk(**k):
        d = dict(blocks=blocks, tail=tail, hidx=hidx, hblk=hblk, oldb=oldb, ppc=ppc, ploc=ploc, prem=prem, cpc=cpc, cloc=cloc, pops=pops, absq=absq, popped=popped, saw=saw); d.update(k)
        return (d['blocks'], d['tail'], d['hidx'], d['hblk'], d['oldb'], d['ppc'], d['ploc'], d['prem'], d['cpc'], d['cloc'], d['pops'], d['absq'], d['popped'], d['saw'])
    for p in range(NP):
        pc = ppc[p]; who = f"P{p}"
        if pc == "a0" and prem[p] > 0:
            out.append((who, mk(ppc=upd(ppc, p, "a1"), ploc=upd(ploc, p, (tail[0], tail[1])))))
        elif pc == "a1":
            blk, idx = ploc[p]
            if tail == (blk, idx, False):
                val = (p, NPUSH[p] - prem[p])
                nt = (blk, idx + 1, False) if idx < B - 1 else (blk, idx, True)
                a2 = absq + (val,) if idx < B - 1 else absq          # LP at the CAS unless last slot
                out.append((who, mk(tail=nt, absq=a2, ppc=upd(ppc, p, "a2"), ploc=upd(ploc, p, (blk, idx, val)))))
            else:
                if (tail[0], tail[1]) != (blk, idx):                     # reload and retry (bounded: only when it changes)
                    out.append((who, mk(ploc=upd(ploc, p, (tail[0], tail[1])))))
                # closing bit set on the same word: spin (disabled until the closer stores the new tail)
        elif pc == "a2":
            blk, idx, val = ploc[p]; live(blocks, blk, who)
            out.append((who, mk(blocks=setslot(blocks, blk, idx, val=val), ppc=upd(ppc, p, "a3"))))
        elif pc == "a3":
            blk, idx, val = ploc[p]; live(blocks, blk, who)
            a2 = absq + (val,) if idx == B - 1 else absq              # LP of the last slot: the ready store
            nxt = "a4" if idx == B - 1 else "a0"
            out.append((who, mk(blocks=setslot(blocks, blk, idx, ready=1), absq=a2, ppc=upd(ppc, p, nxt), prem=upd(prem, p, prem[p] - 1))))
        elif pc == "a4":    # new_box(block.start + 2B)   (reads block.start)
            blk, idx, val = ploc[p]; live(blocks, blk, who)
            nb = len(blocks); out.append((who, mk(blocks=blocks + (newblock(blocks[blk][0] + 2 * B),), ppc=upd(ppc, p, "a5"), ploc=upd(ploc, p, (blk, nb)))))
        elif pc == "a5":    # wait_next_block: load block.next
            blk, nb = ploc[p]; live(blocks, blk, who)
            nx = blocks[blk][2]
            if nx is not None: out.append((who, mk(ppc=upd(ppc, p, "a6"), ploc=upd(ploc, p, (nx, nb)))))
        elif pc == "a6":    # next_block.next = new
            nx, nb = ploc[p]; live(blocks, nx, who)
            st, sl, _, s = blocks[nx]; out.append((who, mk(blocks=upd(blocks, nx, (st, sl, nb, s)), ppc=upd(ppc, p, "a7"))))
        elif pc == "a7":
            nx, nb = ploc[p]; out.append((who, mk(tail=(nx, 0, False), ppc=upd(ppc, p, "a0"), ploc=upd(ploc, p, None))))
    # consumer
    who = "C"
    empty_now = (len(absq) == 0)
    if cpc == "idle" and pops > 0:
        out.append((who, mk(cpc="c0", pops=pops - 1, saw=False)))
    elif cpc == "c0":   # try_get: load ready
        live(blocks, hblk, who); i = hidx % B; v, r = blocks[hblk][1][i]
        if r: out.append((who, mk(cpc="c3", cloc=v)))
        else: out.append((who, mk(cpc="c1", saw=saw or empty_now)))
    elif cpc == "c1":   # push_index(): load tail, deref start
        tb, ti, _ = tail; live(blocks, tb, who); pidx = blocks[tb][0] + ti
        if hidx >= pidx:
            if not (saw or empty_now): raise RuntimeError("pop returned None but the abstract queue was never empty during the call")
            out.append((who, mk(cpc="idle", popped=popped + (None,))))
        else: out.append((who, mk(cpc="c2", saw=saw or empty_now)))
    elif cpc == "c2":   # head.get(): spin on ready
        live(blocks, hblk, who); i = hidx % B; v, r = blocks[hblk][1][i]
        if r: out.append((who, mk(cpc="c3", cloc=v)))
    elif cpc == "c3":   # head.index.store  (LP of pop)
        if not absq or absq[0] != cloc: raise RuntimeError(f"pop returns {cloc} but abstract queue is {absq}")
        nxt = "c4" if hidx % B == B - 1 else "idle"
        out.append((who, mk(hidx=hidx + 1, absq=absq[1:], popped=popped + (cloc,), cpc=nxt, cloc=None)))
    elif cpc == "c4":   # old_block.replace(head): frees the previous old block
        bl = blocks
        if oldb is not None: st, sl, nx, _ = bl[oldb]; bl = upd(bl, oldb, (st, sl, nx, 'freed'))
        st, sl, nx, _ = bl[hblk]; bl = upd(bl, hblk, (st, sl, nx, 'old'))
        out.append((who, mk(blocks=bl, oldb=hblk, cpc="c5")))
    elif cpc == "c5":   # wait_next_block on the (now old) head
        live(blocks, hblk, who); nx = blocks[hblk][2]
        if nx is not None: out.append((who, mk(hblk=nx, cpc="idle")))
    return out
def main():
    s0 = init(); seen = {s0: None}; dq = deque([s0]); finals = 0
    while dq:
        s = dq.popleft()
        try: nx = steps(s)
        except RuntimeError as e:
            p = []; t = s
            while seen[t] is not None: t, w = seen[t]; p.append(w)
            print("FAIL:", e, "\n  schedule", list(reversed(p))); return
        if not nx:
            finals += 1
            popped = [x for x in s[12] if x is not None]
            for p in range(NP):
                mine = [x for x in popped if x[0] == p]
                assert mine == sorted(mine), "per-producer order broken"
            assert len(set(popped)) == len(popped), "duplicate"
            if all(r == 0 for r in s[7]) and s[10] == 0: assert len(popped) == sum(NPUSH) - len(s[11]), "lost value"
        for w, t in nx:
            if t not in seen: seen[t] = (s, w); dq.append(t)
    print(f"B={B} pushes={NPUSH}: {len(seen)} states, {finals} final; pops follow the abstract FIFO at the chosen LPs, empty answers justified, no use-after-free, per-producer order, no loss/dup: OK on this instance")
main()
