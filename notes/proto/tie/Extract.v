Require Import MQ.MpscCore.
Require Extraction.
Require Import ExtrOcamlBasic.
Extraction Language OCaml.
Extraction "mpsc_model.ml" step init.
