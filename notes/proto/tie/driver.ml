(* prototype acceptor: replays a recorded trace of the real may_queue::mpsc through the
   extracted Coq `step` and compares, event by event, what the code observed with what the
   model computes.  Site classification by source line stands in for the site audit. *)
open Mpsc_model
let rec nat_of_int n = if n <= 0 then O else S (nat_of_int (n - 1))
let rec int_of_nat = function O -> 0 | S n -> 1 + int_of_nat n
let b64 = nat_of_int 64
let fail_at ln msg = Printf.printf "REJECT at trace line %d: %s\n" ln msg; exit 1
let ppc_name = function PIdle -> "PIdle" | PLoad -> "PLoad" | PCas -> "PCas" | PWrite -> "PWrite" | PReady -> "PReady" | PStore -> "PStore"
let cpc_name = function CIdle -> "CIdle" | CTry -> "CTry" | CTail -> "CTail" | CSpin -> "CSpin" | CCommit -> "CCommit"
let () =
  let ic = open_in Sys.argv.(1) in
  let s = ref init in
  let ln = ref 0 and nev = ref 0 and nnone = ref 0 in
  let do_step a = match step b64 !s a with Some s' -> s := s' | None -> fail_at !ln "model step not enabled" in
  let expect_p t k = let x = (!s).p (nat_of_int t) in if x.pp <> k then fail_at !ln (Printf.sprintf "pusher %d is at %s in the model, code is at %s" t (ppc_name x.pp) (ppc_name k)) in
  let expect_c k = if (!s).cp <> k then fail_at !ln (Printf.sprintf "consumer is at %s in the model, code is at %s" (cpc_name (!s).cp) (cpc_name k)) in
  (try while true do
    let l = input_line ic in incr ln;
    match String.split_on_char ' ' l with
    | ["push"; t; v] -> expect_p (int_of_string t) PIdle; do_step (Push (nat_of_int (int_of_string t), nat_of_int (int_of_string v)))
    | ["pushret"; t] -> expect_p (int_of_string t) PIdle
    | ["pop"; _] -> expect_c CIdle; do_step Pop
    | ["popret"; _; "none"] -> incr nnone; expect_c CIdle
    | ["popret"; _; v] -> expect_c CIdle; if int_of_nat (!s).cv <> int_of_string v then fail_at !ln (Printf.sprintf "code popped %s, model popped %d" v (int_of_nat (!s).cv))
    | ["ev"; t; line; _kind; v] ->
        let t = int_of_string t and v = Int64.of_string ("0u" ^ v) in
        let idx = Int64.to_int (Int64.logand v 63L) in
        let pt = nat_of_int t in
        (match int_of_string line with
         | 224 -> incr nev; expect_p t PLoad; do_step (PStep pt);
                  if int_of_nat ((!s).p pt).li <> idx then fail_at !ln "tail index read differs"
         | 237 -> incr nev; expect_p t PCas; do_step (PStep pt);
                  let ok = Int64.logand (Int64.shift_right_logical v 7) 1L = 1L in
                  let mok = ((!s).p pt).pp = PWrite in
                  if ok <> mok then fail_at !ln (Printf.sprintf "CAS outcome differs (code %b, model %b)" ok mok);
                  if not ok && int_of_nat ((!s).p pt).li <> idx then fail_at !ln "CAS failure value differs"
         | 74 -> incr nev; expect_p t PWrite; if int_of_nat ((!s).p pt).li <> Int64.to_int v then fail_at !ln "slot index written differs"; do_step (PStep pt)
         | 79 -> incr nev; expect_p t PReady; do_step (PStep pt)
         | 253 -> incr nev; expect_p t PStore; do_step (PStep pt)
         | 87 -> incr nev; expect_c CTry; do_step CStep;
                 if (v <> 0L) <> ((!s).cp = CCommit) then fail_at !ln "try_get outcome differs"
         | 267 -> incr nev; expect_c CTail; do_step CStep
         | 98 -> incr nev; expect_c CSpin; do_step CStep;
                 if (v <> 0L) <> ((!s).cp = CCommit) then fail_at !ln "spin outcome differs"
         | 291 -> incr nev; expect_c CCommit; do_step CStep
         | _ -> ())   (* block-chain maintenance: not in the core model *)
    | _ -> ()
  done with End_of_file -> ());
  if (!s).bad_none || (!s).bad_fifo then fail_at !ln "ghost monitor tripped";
  Printf.printf "ACCEPT %d lines, %d model steps, %d empty answers, final head index %d, abstract queue length %d\n"
    !ln !nev !nnone (int_of_nat (!s).hidx) (List.length (!s).absq)
