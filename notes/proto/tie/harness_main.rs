// prototype: thread-only baton scheduler for may_queue::mpsc; prints one visible event per line
use may_queue::verif::Hooks;
use std::cell::Cell;
use std::panic::Location;
use std::sync::{Arc, Condvar, Mutex};

struct State { cur: usize, alive: Vec<bool>, rng: u64, trace: Vec<String>, switches: usize }
struct Ctl { m: Mutex<State>, cv: Condvar }
thread_local! { static TID: Cell<usize> = const { Cell::new(usize::MAX) }; }
fn tid() -> usize { TID.with(|t| t.get()) }
impl State {
    fn rnd(&mut self) -> u64 { self.rng ^= self.rng << 13; self.rng ^= self.rng >> 7; self.rng ^= self.rng << 17; self.rng }
    fn pick(&mut self) -> usize { let r: Vec<usize> = (0..self.alive.len()).filter(|&i| self.alive[i]).collect(); if r.is_empty() { return usize::MAX } let k = self.rnd() as usize % r.len(); r[k] }
}
impl Ctl {
    fn yield_to_next(&self, me: usize) {
        let mut g = self.m.lock().unwrap();
        let nxt = g.pick();
        if nxt != me { g.switches += 1; g.cur = nxt; self.cv.notify_all(); }
        while g.cur != me { g = self.cv.wait(g).unwrap(); }
    }
    fn log(&self, s: String) { self.m.lock().unwrap().trace.push(s); }
}
impl Hooks for Ctl {
    fn pre(&self, _l: &'static Location<'static>, _k: &'static str) { let me = tid(); if me != usize::MAX { self.yield_to_next(me); } }
    fn post(&self, l: &'static Location<'static>, k: &'static str, v: u64) { let me = tid(); if me != usize::MAX { self.log(format!("ev {me} {} {k} {v}", l.line())); } }
}
fn main() {
    let seed: u64 = std::env::args().nth(1).map(|s| s.parse().unwrap()).unwrap_or(1);
    let np: usize = std::env::args().nth(2).map(|s| s.parse().unwrap()).unwrap_or(2);
    let nv: usize = std::env::args().nth(3).map(|s| s.parse().unwrap()).unwrap_or(40);
    let nthreads = np + 1;
    let ctl: &'static Ctl = Box::leak(Box::new(Ctl { m: Mutex::new(State { cur: 0, alive: vec![true; nthreads], rng: seed.wrapping_mul(0x9E3779B97F4A7C15) | 1, trace: vec![], switches: 0 }), cv: Condvar::new() }));
    may_queue::verif::install(ctl);
    let q = Arc::new(may_queue::mpsc::Queue::<usize>::new());
    let mut hs = vec![];
    for t in 0..nthreads {
        let q = q.clone();
        hs.push(std::thread::spawn(move || {
            TID.with(|x| x.set(t));
            { let mut g = ctl.m.lock().unwrap(); while g.cur != t { g = ctl.cv.wait(g).unwrap(); } }
            if t < np {
                for i in 0..nv { let v = t * 1000 + i; ctl.log(format!("push {t} {v}")); q.push(v); ctl.log(format!("pushret {t}")); }
            } else {
                let mut got = 0; let mut tries = 0;
                while got < np * nv && tries < 100000 {
                    tries += 1; ctl.log(format!("pop {t}"));
                    match q.pop() { Some(v) => { got += 1; ctl.log(format!("popret {t} {v}")); } None => ctl.log(format!("popret {t} none")) }
                }
            }
            let mut g = ctl.m.lock().unwrap(); g.alive[t] = false; let n = g.pick(); g.cur = n; ctl.cv.notify_all();
        }));
    }
    for h in hs { h.join().unwrap(); }
    let g = ctl.m.lock().unwrap();
    for l in &g.trace { println!("{l}"); }
    eprintln!("seed={seed} events={} switches={}", g.trace.len(), g.switches);
}
