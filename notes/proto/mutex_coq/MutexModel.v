(* Prototype: may::sync::Mutex::{lock,unlock} + SyncBlocker handshake + Blocker-token spec,
   candidate repair of F1 (flag-before-token in SyncBlocker::unpark; no `release` in the
   cancel-disabled branch).  Unbounded actors and blockers.  Throw-away design prototype. *)
From Coq Require Import List Arith Bool Lia.
Import ListNotations.

Inductive pc := Idle | L0 | L1 | L2 | H1 | H2 | H3 | H4 | U0 | P | W | C1 | C2 | C3 | C4 | CS | Exit.
Inductive ctx := RPark | RDone | RExit.
Inductive rsn := RU | RC.
Inductive hold := HNone | HA (a : nat) | HB (b : nat).

Record act := { apc : pc; ab : nat; aw : nat; actx : ctx; afor : nat; aign : bool; acanc : bool }.
Record blk := { tok : bool; parked : bool; reason : option rsn; unp : bool; rel : bool; owner : nat; ag : nat }.
Record st := { cnt : nat; q : list nat; nextb : nat; A : nat -> act; Bk : nat -> blk;
               holder : hold; ent : list nat }.

Definition upd {X} (f : nat -> X) i v := fun j => if Nat.eqb j i then v else f j.

Section Model.
Variable isco : nat -> bool.      (* which actors are coroutines (cancellable) *)

Definition set_pc (x : act) p := {| apc := p; ab := ab x; aw := aw x; actx := actx x; afor := afor x; aign := aign x; acanc := acanc x |}.
Definition ret_pc (c : ctx) := match c with RPark => P | RDone => Idle | RExit => Exit end.
Definition fresh (o : nat) := {| tok := false; parked := false; reason := None; unp := false; rel := false; owner := o; ag := 0 |}.

Inductive action := Start (a : nat) (ign : bool) | Step (a : nat) | Cancel (a : nat).

Definition mk c q' n A' B' h e := {| cnt := c; q := q'; nextb := n; A := A'; Bk := B'; holder := h; ent := e |}.

Definition step (s : st) (ac : action) : option st :=
  match ac with
  | Start a ign =>
      let x := A s a in
      match apc x with
      | Idle => Some (mk (cnt s) (q s) (nextb s)
                  (upd (A s) a {| apc := L0; ab := ab x; aw := aw x; actx := actx x; afor := afor x; aign := ign; acanc := acanc x |})
                  (Bk s) (holder s) (ent s))
      | _ => None
      end
  | Cancel a =>
      if isco a then
        let x := A s a in
        let x' := {| apc := apc x; ab := ab x; aw := aw x; actx := actx x; afor := afor x; aign := aign x; acanc := true |} in
        let b := Bk s (ab x) in
        match apc x, reason b with
        | W, None => Some (mk (cnt s) (q s) (nextb s) (upd (A s) a x')
                       (upd (Bk s) (ab x) {| tok := tok b; parked := parked b; reason := Some RC; unp := unp b; rel := rel b; owner := owner b; ag := ag b |})
                       (holder s) (ent s))
        | _, _ => Some (mk (cnt s) (q s) (nextb s) (upd (A s) a x') (Bk s) (holder s) (ent s))
        end
      else None
  | Step a =>
      let x := A s a in
      let b := Bk s (ab x) in
      let w := Bk s (aw x) in
      match apc x with
      | Idle | Exit => None
      | L0 => if Nat.eqb (cnt s) 0
              then Some (mk 1 (q s) (nextb s) (upd (A s) a (set_pc x CS)) (Bk s) (HA a) (a :: ent s))
              else Some (mk (cnt s) (q s) (nextb s) (upd (A s) a (set_pc x L1)) (Bk s) (holder s) (ent s))
      | L1 => let n := nextb s in
              Some (mk (cnt s) (q s ++ [n]) (S n)
                     (upd (A s) a {| apc := L2; ab := n; aw := aw x; actx := actx x; afor := afor x; aign := aign x; acanc := acanc x |})
                     (upd (Bk s) n (fresh a)) (holder s) (ent s))
      | L2 => if Nat.eqb (cnt s) 0
              then Some (mk 1 (q s) (nextb s)
                     (upd (A s) a {| apc := H1; ab := ab x; aw := aw x; actx := RPark; afor := afor x; aign := aign x; acanc := acanc x |})
                     (Bk s) (HA a) (a :: ent s))
              else Some (mk (S (cnt s)) (q s) (nextb s) (upd (A s) a (set_pc x P)) (Bk s) (holder s) (a :: ent s))
      | H1 => match q s with
              | [] => None                               (* expect("got null blocker!") *)
              | v :: q' => Some (mk (cnt s) q' (nextb s)
                     (upd (A s) a {| apc := H2; ab := ab x; aw := v; actx := actx x; afor := afor x; aign := aign x; acanc := acanc x |})
                     (Bk s) (holder s) (ent s))
              end
      | H2 => Some (mk (cnt s) (q s) (nextb s) (upd (A s) a (set_pc x H3))
                     (upd (Bk s) (aw x) {| tok := tok w; parked := parked w; reason := reason w; unp := true; rel := rel w; owner := owner w; ag := a |})
                     (HB (aw x)) (ent s))
      | H3 => Some (mk (cnt s) (q s) (nextb s) (upd (A s) a (set_pc x H4))
                     (upd (Bk s) (aw x) {| tok := true; parked := parked w;
                                           reason := (if parked w then match reason w with None => Some RU | r => r end else reason w);
                                           unp := unp w; rel := rel w; owner := owner w; ag := ag w |})
                     (holder s) (ent s))
      | H4 => if rel w
              then Some (mk (cnt s) (q s) (nextb s)
                     (upd (A s) a {| apc := U0; ab := ab x; aw := aw x; actx := actx x; afor := owner w; aign := aign x; acanc := acanc x |})
                     (upd (Bk s) (aw x) {| tok := tok w; parked := parked w; reason := reason w; unp := unp w; rel := false; owner := owner w; ag := ag w |})
                     (HA a) (ent s))
              else Some (mk (cnt s) (q s) (nextb s) (upd (A s) a (set_pc x (ret_pc (actx x)))) (Bk s) (holder s) (ent s))
      | U0 => if Nat.ltb 1 (cnt s)
              then Some (mk (cnt s - 1) (q s) (nextb s) (upd (A s) a (set_pc x H1)) (Bk s) (holder s) (remove Nat.eq_dec (afor x) (ent s)))
              else Some (mk (cnt s - 1) (q s) (nextb s) (upd (A s) a (set_pc x (ret_pc (actx x)))) (Bk s) HNone (remove Nat.eq_dec (afor x) (ent s)))
      | P => if isco a && acanc x && negb (aign x)
             then Some (mk (cnt s) (q s) (nextb s) (upd (A s) a (set_pc x C1))
                     (upd (Bk s) (ab x) {| tok := false; parked := parked b; reason := reason b; unp := unp b; rel := rel b; owner := owner b; ag := ag b |})
                     (holder s) (ent s))
             else if tok b
             then Some (mk (cnt s) (q s) (nextb s) (upd (A s) a (set_pc x CS))
                     (upd (Bk s) (ab x) {| tok := false; parked := parked b; reason := reason b; unp := unp b; rel := rel b; owner := owner b; ag := ag b |})
                     (HA a) (ent s))
             else Some (mk (cnt s) (q s) (nextb s) (upd (A s) a (set_pc x W))
                     (upd (Bk s) (ab x) {| tok := tok b; parked := true; reason := None; unp := unp b; rel := rel b; owner := owner b; ag := ag b |})
                     (holder s) (ent s))
      | W => match reason b with
             | None => None
             | Some RU => Some (mk (cnt s) (q s) (nextb s) (upd (A s) a (set_pc x CS))
                     (upd (Bk s) (ab x) {| tok := false; parked := false; reason := None; unp := unp b; rel := rel b; owner := owner b; ag := ag b |})
                     (HA a) (ent s))
             | Some RC => Some (mk (cnt s) (q s) (nextb s) (upd (A s) a (set_pc x C1))
                     (upd (Bk s) (ab x) {| tok := false; parked := false; reason := None; unp := unp b; rel := rel b; owner := owner b; ag := ag b |})
                     (holder s) (ent s))
             end
      | C1 => if unp b
              then (if aign x
                    then Some (mk (cnt s) (q s) (nextb s) (upd (A s) a (set_pc x CS)) (Bk s) (HA a) (ent s))
                    else Some (mk (cnt s) (q s) (nextb s)
                           (upd (A s) a {| apc := U0; ab := ab x; aw := aw x; actx := RExit; afor := a; aign := aign x; acanc := acanc x |})
                           (Bk s) (HA a) (ent s)))
              else (if aign x
                    then Some (mk (cnt s) (q s) (nextb s) (upd (A s) a (set_pc x P)) (Bk s) (holder s) (ent s))
                    else Some (mk (cnt s) (q s) (nextb s) (upd (A s) a (set_pc x C2)) (Bk s) (holder s) (ent s)))
      | C2 => Some (mk (cnt s) (q s) (nextb s) (upd (A s) a (set_pc x C3))
                     (upd (Bk s) (ab x) {| tok := tok b; parked := parked b; reason := reason b; unp := unp b; rel := true; owner := owner b; ag := ag b |})
                     (holder s) (ent s))
      | C3 => if unp b
              then Some (mk (cnt s) (q s) (nextb s) (upd (A s) a (set_pc x C4)) (Bk s) (holder s) (ent s))
              else Some (mk (cnt s) (q s) (nextb s) (upd (A s) a (set_pc x Exit)) (Bk s) (holder s) (ent s))
      | C4 => if rel b
              then Some (mk (cnt s) (q s) (nextb s)
                     (upd (A s) a {| apc := U0; ab := ab x; aw := aw x; actx := RExit; afor := a; aign := aign x; acanc := acanc x |})
                     (upd (Bk s) (ab x) {| tok := tok b; parked := parked b; reason := reason b; unp := unp b; rel := false; owner := owner b; ag := ag b |})
                     (HA a) (ent s))
              else Some (mk (cnt s) (q s) (nextb s) (upd (A s) a (set_pc x Exit)) (Bk s) (holder s) (ent s))
      | CS => Some (mk (cnt s) (q s) (nextb s)
                     (upd (A s) a {| apc := U0; ab := ab x; aw := aw x; actx := RDone; afor := a; aign := aign x; acanc := acanc x |})
                     (Bk s) (holder s) (ent s))
      end
  end.

Definition act0 := {| apc := Idle; ab := 0; aw := 0; actx := RDone; afor := 0; aign := false; acanc := false |}.
Definition init : st := mk 0 [] 1 (fun _ => act0) (fun _ => fresh 0) HNone [].
  (* blocker 0 is a dummy never pushed; real blockers start at 1 *)

Inductive Reach : st -> Prop :=
| R0 : Reach init
| RS s a s' : Reach s -> step s a = Some s' -> Reach s'.

Fixpoint run (s : st) (l : list action) : st :=
  match l with [] => s | a :: l' => match step s a with Some s' => run s' l' | None => run s l' end end.
Lemma run_reach l : forall s, Reach s -> Reach (run s l).
Proof. induction l as [|a l IH]; cbn; intros s R; auto. destruct (step s a) eqn:E; eauto using RS. Qed.

End Model.
