From Coq Require Import List Arith Bool Lia.
Import ListNotations.
Require Import MX.MutexModel MX.MutexInv.

Section S.
Variable isco : nat -> bool.
Notation step := (step isco).
Lemma pres_A_self s a s' : Inv s -> step s (Step a) = Some s' -> ainv s' a.
Proof.
  intros Hi H. destruct (IG _ Hi) as (G1 & G2 & G3 & G4 & G5).
  step_cases H; destruct (actx (A s a)) eqn:Ectx; a_facts Hi a;
    b_facts Hi (ab (A s a)); b_facts Hi (aw (A s a));
    unfold ainv, set_pc, waiting, halfgone; cbn; upd_tac; cbn in *; num;
    repeat match goal with |- _ /\ _ => split end; intros; brk; fin.
  all: try (destruct (Nat.eq_dec (owner (Bk s (aw (A s a)))) a) as [eo|neo]; [rewrite eo in *; brk; fin | fin]).
Qed.

Lemma pres_A_self_start s a ign s' : Inv s -> step s (Start a ign) = Some s' -> ainv s' a.
Proof.
  intros Hi H. step_cases H; a_facts Hi a; unfold ainv, set_pc; cbn; upd_tac; cbn in *; fin.
Qed.

Lemma pres_A_self_cancel s a s' : Inv s -> step s (Cancel a) = Some s' -> ainv s' a.
Proof.
  intros Hi H. pose proof (IA _ Hi a) as Ha. unfold ainv in Ha.
  step_cases H; unfold ainv; cbn; upd_tac; cbn in *; try rewrite Epc in *; cbn in *; brk; fin.
Qed.

End S.
