From Coq Require Import List Arith Bool.
Import ListNotations.
Require Import MX.MutexModelV0.

(* actors 0 and 2 are coroutines, 1 is a thread *)
Definition isco (a : nat) := negb (Nat.eqb a 1).

(* actor 1 holds the lock; coroutine 0 (cancel disabled, as in Condvar::wait's re-lock) queues
   and parks; cancel(0) wakes it; it registers `release` and goes back to waiting; 1 unlocks:
   pops 0, wakes it (0 enters the critical section), sees `release`, unlocks again: lock free;
   coroutine 2 takes it by CAS: two holders. *)
Definition witness : list action :=
  [Start 1 false; Step 1;
   Start 0 true; Step 0; Step 0; Step 0; Step 0; Cancel 0; Step 0; Step 0; Step 0; Step 0;
   Step 1; Step 1; Step 1; Step 1; Step 0; Step 1; Step 1; Step 1;
   Start 2 false; Step 2].

Theorem mutual_exclusion_refuted :
  exists s, Reach isco s /\ apc (A s 0) = CS /\ apc (A s 2) = CS.
Proof.
  exists (run isco init witness). split; [apply run_reach, R0 | vm_compute; split; reflexivity].
Qed.
Print Assumptions mutual_exclusion_refuted.
