From Coq Require Import List Arith Bool Lia.
Import ListNotations.
Require Import MX.MutexModel MX.MutexInv MX.MutexPresG MX.MutexPresA MX.MutexPresO MX.MutexPresB.

Section S.
Variable isco : nat -> bool.
Notation step := (step isco).
Notation Reach := (Reach isco).

Lemma inv_step s ac s' : Inv s -> step s ac = Some s' -> Inv s'.
Proof.
  intros Hi H. constructor.
  - intro a'. destruct ac as [a i | a | a]; (destruct (Nat.eq_dec a' a) as [->|ne];
      [ first [eapply pres_A_self_start; eassumption | eapply pres_A_self; eassumption | eapply pres_A_self_cancel; eassumption]
      | eapply (pres_A_other isco s _ s' a a' Hi); [ | exact ne | exact H ]; eauto ]).
  - intro b. eapply pres_B; eauto.
  - eapply pres_G; eauto.
Qed.

Theorem inv_reach s : Reach s -> Inv s.
Proof. induction 1; eauto using inv_init, inv_step. Qed.

(* C05 (i): at most one party inside the critical section, for any number of actors,
   any mix of threads and coroutines, cancellation at any point, any schedule *)
Theorem mutual_exclusion s a a' :
  Reach s -> apc (A s a) = CS -> apc (A s a') = CS -> a = a'.
Proof.
  intros R Ha Ha'. pose proof (inv_reach s R) as Hi.
  pose proof (IA _ Hi a) as I1. pose proof (IA _ Hi a') as I2.
  unfold ainv in I1, I2. rewrite Ha in I1. rewrite Ha' in I2.
  destruct I1 as (_ & _ & _ & H1 & _). destruct I2 as (_ & _ & _ & H2 & _). congruence.
Qed.

(* try_lock/lock's CAS succeeds only on a free lock *)
Theorem cas_only_when_free s a :
  Reach s -> apc (A s a) = L0 -> cnt s = 0 -> holder s = HNone /\ forall a', apc (A s a') <> CS.
Proof.
  intros R Ha Hc. pose proof (inv_reach s R) as Hi. destruct (IG _ Hi) as (G1 & _ & _ & _ & G5).
  assert (E : ent s = []) by (apply length_zero_iff_nil; lia).
  split.
  - destruct (holder s) eqn:Eh; auto; exfalso; apply G5; congruence.
  - intros a' Hcs. pose proof (IA _ Hi a') as I. unfold ainv in I. rewrite Hcs in I.
    destruct I as (_ & _ & _ & _ & Hin). rewrite E in Hin. destruct Hin.
Qed.
End S.

Print Assumptions mutual_exclusion.
