From Coq Require Import List Arith Bool.
Import ListNotations.
Require Import MX.MutexModelV1.

Definition isco (a : nat) := negb (Nat.eqb a 1).
Definition Stable (s : st) : Prop := forall a, apc (A s a) = CS \/ step isco s (Step a) = None.

(* 1 locks and unlocks while coroutine 0 (cancel disabled) is between push and fetch_add;
   coroutine 2 takes the free lock; 0 counts itself and parks; cancel(0) wakes it;
   2 unlocks: pops 0 and wakes its blocker (token) -- 0's resume consumes that token, sees
   `unparked` still false, and parks again; only then does 2 store `unparked`.
   Nobody will ever wake 0: stranded with cnt = 1. *)
Definition witness : list action :=
  [Start 1 false; Step 1; Start 0 true; Step 0; Step 0; Step 1; Step 1;
   Start 2 false; Step 2; Step 0; Step 0; Cancel 0;
   Step 2; Step 2; Step 2; Step 2; Step 0; Step 0; Step 0; Step 2; Step 2].

Theorem no_stranded_waiter_refuted_V1 :
  exists s, Reach isco s /\ Stable s /\ (forall a, apc (A s a) <> CS) /\ (forall a, apc (A s a) <> H1) /\
            apc (A s 0) = W /\ cnt s = 1.
Proof.
  exists (run isco init witness). split; [apply run_reach, R0|].
  repeat split.
  - intros [|[|[|a]]]; vm_compute; auto.
  - intros [|[|[|a]]]; vm_compute; discriminate.
  - intros [|[|[|a]]]; vm_compute; discriminate.
Qed.
Print Assumptions no_stranded_waiter_refuted_V1.
