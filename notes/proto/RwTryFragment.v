(* Prototype (design-time) for C12, findings F4 and F5: the non-parking fragment of
   may::sync::RwLock -- try_lock (load / CAS / poison.get), the fast paths of write() and read()
   through lock(), try_write, try_read, guard construction (poison.borrow) and the two guard
   drops -- as a small-step system, one transition per shared access.  The inner `rlock`
   Mutex<usize> is an atomic lock (C05) around a wrapping 64-bit reader count.  A call that would
   have to park leaves the fragment (pc Out); every run of the fragment is a run of the code,
   so a witness found here is a witness for the code.  The full model (with the waiter queue)
   is the C05 skeleton and is left to the real development. *)
From Coq Require Import List Arith ZArith Bool Lia.
Import ListNotations.
Open Scope Z_scope.

Definition W := 2 ^ 64.
Inductive op := OWrite | OTryWrite | ORead | OTryRead.
Inductive pc :=
  | Idle | Out
  | RL (o : op)                 (* read paths: acquire rlock *)
  | T0 (o : op) | T1 (o : op) | T2 (o : op)   (* try_lock: load cnt / CAS / poison.get after a lost CAS *)
  | G (o : op)                  (* guard constructor: poison.borrow *)
  | INC (o : op)                (* read paths: *r += 1, release rlock *)
  | HoldW | HoldR               (* the caller owns a write / read guard (from Ok or from Poisoned(..)) *)
  | DW                          (* write guard drop: unlock = fetch_sub *)
  | DR0 | DR1.                  (* read guard drop: acquire rlock / *r -= 1, maybe unlock, release *)

Record st := { cnt : Z; rl : option nat; r : Z; poisoned : bool; P : nat -> pc }.
Definition upd (f : nat -> pc) i v := fun j => if Nat.eqb j i then v else f j.
Definition mk c l x p f := {| cnt := c; rl := l; r := x; poisoned := p; P := f |}.
Definition is_read o := match o with ORead | OTryRead => true | _ => false end.

Inductive action := Call (a : nat) (o : op) | Drop (a : nat) | Step (a : nat).

Definition step (s : st) (ac : action) : option st :=
  let set a p := upd (P s) a p in
  match ac with
  | Call a o => match P s a with
      | Idle => Some (mk (cnt s) (rl s) (r s) (poisoned s) (set a (if is_read o then RL o else T0 o)))
      | _ => None end
  | Drop a => match P s a with
      | HoldW => Some (mk (cnt s) (rl s) (r s) (poisoned s) (set a DW))
      | HoldR => Some (mk (cnt s) (rl s) (r s) (poisoned s) (set a DR0))
      | _ => None end
  | Step a => match P s a with
      | RL o => match rl s with
                | None => Some (mk (cnt s) (Some a) (r s) (poisoned s) (set a (if r s =? 0 then T0 o else match o with OTryRead => G o | _ => INC o end)))
                | Some _ => match o with
                            | OTryRead => Some (mk (cnt s) (rl s) (r s) (poisoned s) (set a Idle))   (* WouldBlock *)
                            | _ => None end                                                          (* Mutex::lock waits *)
                end
      | T0 o => if cnt s =? 0 then Some (mk (cnt s) (rl s) (r s) (poisoned s) (set a (T1 o)))
                else (* WouldBlock *)
                  match o with
                  | OTryWrite => Some (mk (cnt s) (rl s) (r s) (poisoned s) (set a Idle))
                  | OTryRead => Some (mk (cnt s) None (r s) (poisoned s) (set a Idle))           (* drops the rlock guard *)
                  | _ => Some (mk (cnt s) (rl s) (r s) (poisoned s) (set a Out))                 (* would park *)
                  end
      | T1 o => if cnt s =? 0 then Some (mk 1 (rl s) (r s) (poisoned s) (set a (match o with ORead => INC o | _ => G o end)))
                else Some (mk (cnt s) (rl s) (r s) (poisoned s) (set a (T2 o)))
      | T2 o => if poisoned s
                then (* Err(Poisoned): lock() maps it to Err(Timeout); write()/read()/try_write()/try_read() only test for
                        Canceled resp. WouldBlock and go on as if the lock had been taken *)
                     Some (mk (cnt s) (rl s) (r s) (poisoned s) (set a (match o with ORead => INC o | _ => G o end)))
                else match o with
                     | OTryWrite => Some (mk (cnt s) (rl s) (r s) (poisoned s) (set a Idle))
                     | OTryRead => Some (mk (cnt s) None (r s) (poisoned s) (set a Idle))
                     | _ => Some (mk (cnt s) (rl s) (r s) (poisoned s) (set a Out))
                     end
      | INC o => (* read(): *r += 1; RwLockReadGuard::new; the rlock guard is dropped at the end of the call *)
                 Some (mk (cnt s) None ((r s + 1) mod W) (poisoned s) (set a HoldR))
      | G o => match o with
               | OTryRead => (* let g = RwLockReadGuard::new(self)?;  *r += 1; *)
                   if poisoned s
                   then Some (mk (cnt s) None (r s) (poisoned s) (set a HoldR))                   (* `?` returns Poisoned(guard) before the increment *)
                   else Some (mk (cnt s) None ((r s + 1) mod W) (poisoned s) (set a HoldR))
               | _ => Some (mk (cnt s) (rl s) (r s) (poisoned s) (set a HoldW))                   (* Ok(guard) or Poisoned(guard): a guard either way *)
               end
      | DW => Some (mk (cnt s - 1) (rl s) (r s) (poisoned s) (set a (if 1 <? cnt s then Out else Idle)))
      | DR0 => match rl s with None => Some (mk (cnt s) (Some a) (r s) (poisoned s) (set a DR1)) | Some _ => None end
      | DR1 => let r' := (r s - 1) mod W in
               if r' =? 0 then Some (mk (cnt s - 1) None r' (poisoned s) (set a (if 1 <? cnt s then Out else Idle)))
               else Some (mk (cnt s) None r' (poisoned s) (set a Idle))
      | _ => None
      end
  end.

Definition init (p : bool) : st := mk 0 None 0 p (fun _ => Idle).
Inductive Reach (p : bool) : st -> Prop :=
| R0 : Reach p (init p)
| RS s a s' : Reach p s -> step s a = Some s' -> Reach p s'.
Fixpoint run (s : st) (l : list action) : option st :=
  match l with [] => Some s | a :: l' => match step s a with Some s' => run s' l' | None => None end end.
Lemma reach_run p l s s' : Reach p s -> run s l = Some s' -> Reach p s'.
Proof.
  revert s. induction l as [|a l IH]; cbn [run]; intros s R H; [inversion H; subst; exact R|].
  destruct (step s a) eqn:E; [|discriminate]. eapply IH; [eapply RS; eauto | exact H].
Qed.

(* F5: on a poisoned lock two writers hold guards at the same time.  Both load cnt = 0; 1 wins the
   CAS; 2 loses it, reads the poison flag, and write() carries on to the guard constructor. *)
Definition f5 := [Call 1%nat OWrite; Call 2%nat OWrite; Step 1%nat; Step 2%nat; Step 1%nat; Step 2%nat; Step 2%nat; Step 1%nat; Step 2%nat].
Theorem writer_exclusion_refuted :
  exists s, Reach true s /\ P s 1%nat = HoldW /\ P s 2%nat = HoldW.
Proof.
  destruct (run (init true) f5) as [s|] eqn:E; [|vm_compute in E; discriminate].
  exists s. split; [eapply reach_run; [constructor | exact E]|].
  vm_compute in E. inversion E; subst. vm_compute. auto.
Qed.

(* F4: on a poisoned lock, try_read hands out a guard without counting the reader; dropping it
   wraps the count to 2^64 - 1, the global lock is never released, and with no guard alive any more
   try_write answers WouldBlock for ever (here: comes back to Idle without a guard, cnt still 1). *)
Definition f4 := [Call 1%nat OTryRead; Step 1%nat; Step 1%nat; Step 1%nat; Step 1%nat; Drop 1%nat; Step 1%nat; Step 1%nat;
                  Call 2%nat OTryWrite; Step 2%nat].
Theorem guards_release_what_they_took_refuted :
  exists s, Reach true s /\ (forall a, P s a = Idle) /\ cnt s = 1 /\ r s = W - 1.
Proof.
  destruct (run (init true) f4) as [s|] eqn:E; [|vm_compute in E; discriminate].
  exists s. split; [eapply reach_run; [constructor | exact E]|].
  vm_compute in E. inversion E; subst. cbn [P cnt r mk]. split; [|split; reflexivity].
  intro a. cbv beta. repeat match goal with |- context [match ?c with _ => _ end] => destruct c end; reflexivity.
Qed.
Print Assumptions writer_exclusion_refuted.
Print Assumptions guards_release_what_they_took_refuted.
