#!/usr/bin/env python3
"""Design aid (NOT a proof): explicit-state exploration of may_queue::spmc::Queue (block size B,
one transition per shared access, allocator may re-issue a freed address = ABA) on small
instances, to test the C04 statements before proving them."""
import sys
from collections import deque
B = 2
OWNER = (sys.argv[1] if len(sys.argv) > 1 else "pppLp").strip()      # p = push, L = local_pop
STEAL = (sys.argv[2] if len(sys.argv) > 2 else "b,s").split(",")     # per stealer: s = pop, b = bulk_pop (sequence)
REUSE = (sys.argv[3] if len(sys.argv) > 3 else "1") == "1"
NS = len(STEAL)
def upd(t, i, v): return t[:i] + (v,) + t[i+1:]
# block at address a: (start, used, next, slots, alive)
def blk(start): return (start, B, None, tuple([None]*B), True)
class Fail(Exception): pass
def init():
    heap = (blk(0),)
    # heap, head(addr,idx,lock), tidx, tblk, owner(pc,loc,progpos,nextval), stealers((pc,loc,progpos),..), claimed(tuple of logical idx), got(tuple (who,logical,val))
    return (heap, (0, 0, False), 0, 0, ("idle", None, 0, 0), tuple([("idle", None, 0)]*NS), (), ())
def D(heap, a, who):
    if not heap[a][4]: raise Fail(f"{who} dereferences freed block at address {a}")
    return heap[a]
def setb(heap, a, **k):
    st, us, nx, sl, al = heap[a]
    d = dict(start=st, used=us, next=nx, slots=sl, alive=al); d.update(k)
    return upd(heap, a, (d['start'], d['used'], d['next'], d['slots'], d['alive']))
def allocs(heap, start):
    res = []
    if REUSE:
        for a, b in enumerate(heap):
            if not b[4]: res.append((upd(heap, a, blk(start)), a))
    res.append((heap + (blk(start),), len(heap)))
    return res
def mark_read(heap, a, n, who):
    b = D(heap, a, who); old = b[1]
    if old < n: raise Fail(f"{who}: used underflow on block {a}")
    heap = setb(heap, a, used=old - n)
    if old == n: heap = setb(heap, a, alive=False)
    return heap
def claim(claimed, got, who, logical, val, pushed_vals):
    if logical in claimed: raise Fail(f"{who} obtains logical slot {logical} a second time")
    if val is None: raise Fail(f"{who} reads unfilled slot {logical}")
    if val != logical: raise Fail(f"{who} reads value {val} from logical slot {logical}")
    return claimed + (logical,), got + ((who, logical),)

def steps(S):
    heap, head, tidx, tblk, own, st, claimed, got = S
    out = []
    def mk(**k):
        d = dict(heap=heap, head=head, tidx=tidx, tblk=tblk, own=own, st=st, claimed=claimed, got=got); d.update(k)
        return (d['heap'], d['head'], d['tidx'], d['tblk'], d['own'], d['st'], d['claimed'], d['got'])
    # ---------------- owner
    pc, loc, pos, nv = own; who = "O"
    def og(npc, nloc=None, npos=pos, nnv=nv, **k): return mk(own=(npc, nloc, npos, nnv), **k)
    if pc == "idle" and pos < len(OWNER):
        out.append((who, og("o0" if OWNER[pos] == "p" else "l0", None, pos + 1)))
    elif pc == "o0":    # write slot
        b = D(heap, tblk, who); sl = upd(b[3], tidx % B, nv)
        out.append((who, og("o1", None, heap=setb(heap, tblk, slots=sl))))
    elif pc == "o1":
        if (tidx + 1) % B == 0:
            for h2, a in allocs(heap, tidx + 1): out.append((who, og("o1a", a, heap=h2)))
        else: out.append((who, og("o2")))
    elif pc == "o1a": D(heap, tblk, who); out.append((who, og("o1b", loc, heap=setb(heap, tblk, next=loc))))
    elif pc == "o1b": out.append((who, og("o2", None, tblk=loc)))
    elif pc == "o2": out.append((who, og("idle", None, nnv=nv + 1, tidx=tidx + 1)))
    elif pc == "l0": out.append((who, og("l1", (head[0], head[1]))))
    elif pc == "l1":
        ba, i = loc
        if ba == tblk and i >= tidx % B: out.append((who, og("idle")))           # None
        else:
            if head == (ba, i, False):
                nh = (ba, i + 1, False) if i != B - 1 else (ba, i, True)
                out.append((who, og("l2", (ba, i), head=nh)))
            elif (head[0], head[1]) != (ba, i): out.append((who, og("l1", (head[0], head[1]))))
            # else: lock bit set by someone: spin
    elif pc == "l2":
        ba, i = loc; b = D(heap, ba, who); pidx = b[0] + i
        if i == B - 1:
            if pidx >= tidx: out.append((who, og("idle", head=(ba, i, False))))
            else: out.append((who, og("l2b", (ba, i, pidx))))
        elif pidx >= tidx:
            if pidx != tidx: raise Fail("owner: pop_index > push_index (assert_eq fails)")
            h2 = mark_read(heap, ba, 1, who)
            out.append((who, og("idle", None, tidx=tidx + 1, heap=h2)))       # slot skipped: any value later written there would be lost
            if True: pass
        else: out.append((who, og("l3", (ba, i, pidx))))
    elif pc == "l2b":
        ba, i, pidx = loc; b = D(heap, ba, who)
        if b[2] is None: raise Fail("owner: next is null at block end")
        out.append((who, og("l3", loc, head=(b[2], 0, False))))
    elif pc == "l3":
        ba, i, pidx = loc; b = D(heap, ba, who)
        c2, g2 = claim(claimed, got, who, pidx, b[3][i], None)
        out.append((who, og("l4", loc, claimed=c2, got=g2)))
    elif pc == "l4":
        ba, i, pidx = loc; out.append((who, og("idle", None, heap=mark_read(heap, ba, 1, who))))
    # ---------------- stealers
    for k in range(NS):
        pc, loc, pos = st[k]; who = f"S{k}"
        def sg(npc, nloc=None, npos=pos, **kw): return mk(st=upd(st, k, (npc, nloc, npos)), **kw)
        prog = STEAL[k]
        if pc == "idle" and pos < len(prog):
            out.append((who, sg("x0", (prog[pos],), pos + 1)))
        elif pc == "x0": out.append((who, sg("x0b", loc + ((head[0], head[1]),))))
        elif pc == "x0b": out.append((who, sg("x0c", loc + (tidx,))))
        elif pc == "x0c": out.append((who, sg("x1", loc + (tblk,))))
        elif pc == "x1":
            kind, (ba, i), pidx_l, tb_l = loc
            pid = pidx_l % B
            if ba == tb_l and i >= pid: out.append((who, sg("idle")))            # None / empty
            else:
                if kind == "s":
                    nh = (ba, i + 1, False) if i != B - 1 else (ba, i, True); new_id = None
                else:
                    new_id = 0 if ba != tb_l else pid
                    nh = (ba, i, True) if new_id == 0 else (ba, new_id, False)
                if head == (ba, i, False): out.append((who, sg("x2", (kind, ba, i, new_id), head=nh)))
                elif (head[0], head[1]) != (ba, i): out.append((who, sg("x0b", (kind, (head[0], head[1])))))   # reload push_index, tail_block
        elif pc == "x2":    # load block.start
            kind, ba, i, new_id = loc; b = D(heap, ba, who); pidx = b[0] + i
            out.append((who, sg("x3", (kind, ba, i, new_id, pidx))))
        elif pc == "x3":
            kind, ba, i, new_id, pidx = loc
            if kind == "s":
                if i == B - 1:
                    if pidx >= tidx: out.append((who, sg("idle", head=(ba, i, False))))
                    else:
                        b = D(heap, ba, who)
                        if b[2] is None: raise Fail(f"{who}: next is null at block end")
                        out.append((who, sg("x4", (kind, ba, i, pidx, pidx + 1), head=(b[2], 0, False))))
                else:
                    if pidx < tidx: out.append((who, sg("x4", (kind, ba, i, pidx, pidx + 1))))    # else spin (sleep 10ms loop)
            else:
                b = D(heap, ba, who); start = b[0]
                if new_id == 0:
                    if pidx >= tidx: out.append((who, sg("idle", head=(ba, i, False))))
                    else:
                        end = min(start + B, tidx); nid = end % B
                        if nid == 0:
                            if b[2] is None: raise Fail(f"{who}: next is null at block end (bulk)")
                            out.append((who, sg("x4", (kind, ba, i, pidx, end), head=(b[2], 0, False))))
                        else: out.append((who, sg("x4", (kind, ba, i, pidx, end), head=(ba, nid, False))))
                else:
                    end = start + new_id
                    if end <= pidx: raise Fail(f"{who}: empty or negative bulk range [{pidx},{end})")
                    if end <= tidx: out.append((who, sg("x4", (kind, ba, i, pidx, end))))         # else spin
        elif pc == "x4":    # read the values
            kind, ba, i, pidx, end = loc; b = D(heap, ba, who); c2, g2 = claimed, got
            for j in range(pidx, end): c2, g2 = claim(c2, g2, who, j, b[3][j % B], None)
            out.append((who, sg("x5", (ba, end - pidx), claimed=c2, got=g2)))
        elif pc == "x5":
            ba, n = loc; out.append((who, sg("idle", None, heap=mark_read(heap, ba, n, who))))
    return out
def main():
    s0 = init(); seen = {s0: None}; dq = deque([s0]); finals = 0; stuck = None; lost = None
    while dq:
        s = dq.popleft()
        try: nx = steps(s)
        except Fail as e:
            p = []; t = s
            while seen[t] is not None: t, w = seen[t]; p.append(w)
            print("FAIL:", e, "\n  schedule", list(reversed(p))); return
        if not nx:
            finals += 1
            heap, head, tidx, tblk, own, st, claimed, got = s
            busy = [i for i, x in enumerate(st) if x[0] != "idle"] + ([-1] if own[0] != "idle" else [])
            if busy and stuck is None: stuck = s
        for w, t in nx:
            if t not in seen: seen[t] = (s, w); dq.append(t)
    def path(s):
        p = []
        while seen[s] is not None: s, w = seen[s]; p.append(w)
        return list(reversed(p))
    print(f"B={B} owner={OWNER} stealers={STEAL} reuse={REUSE}: {len(seen)} states, {finals} final states; exactly-once, filled-slot, value/order and use-after-free checks passed")
    if stuck:
        heap, head, tidx, tblk, own, st, claimed, got = stuck
        print("  note: a final state has a claimer still waiting for the owner to fill its range:", [x[0] for x in st], "head", head, "tail", tidx, "\n  schedule", path(stuck))
main()
