#!/usr/bin/env python3
"""Design aid (NOT a proof): explicit-state exploration of may_queue::mpsc_list_v1 on a small
instance, one transition per memory access, to test the C19 theorem statements before proving."""
import sys
from collections import deque
NP = int(sys.argv[1]) if len(sys.argv) > 1 else 2      # producers, one push each
LINK = 1 << 8
# node: [prev, next, value(bool has), refs, freed]
# state: nodes(tuple of tuples), head, tail, prod pcs, prod locals, cons pc, cons locals, consumed{id:how}, log
def freeze(n): return tuple(tuple(x) for x in n)
def init():
    nodes = [(None, None, False, 1, False)]   # stub 0
    return (freeze(nodes), 0, 0, tuple(["p0"]*NP), tuple([None]*NP), "idle", None, (), ())

CONS_OPS = ["pop", "popif_t", "popif_f", "peek"] 

def steps(s):
    nodes, head, tail, ppc, ploc, cpc, cloc, consumed, ishead = s
    out = []
    N = [list(n) for n in nodes]
    def pack(N2, head=head, tail=tail, ppc=ppc, ploc=ploc, cpc=cpc, cloc=cloc, consumed=consumed, ishead=ishead):
        return (freeze(N2), head, tail, ppc, ploc, cpc, cloc, consumed, ishead)
    def upd(t, i, v): return t[:i] + (v,) + t[i+1:]
    def deref(N2, i, who):
        if N2[i][4]: raise RuntimeError(f"use-after-free of node {i} by {who}")
    # producers
    for p in range(NP):
        pc = ppc[p]
        if pc == "p0":      # alloc node + swap head
            N2 = [list(n) for n in nodes]; nid = len(N2); N2.append([None, None, True, LINK | 2, False])
            out.append((f"P{p}", pack(N2, head=nid, ppc=upd(ppc,p,"p1"), ploc=upd(ploc,p,(nid, head, head == tail)))))
        elif pc == "p1":    # (*node).prev = prev
            nid, prev, _e = ploc[p]; N2 = [list(n) for n in nodes]; deref(N2, nid, f"P{p}"); N2[nid][0] = prev
            out.append((f"P{p}", pack(N2, ppc=upd(ppc,p,"p2"))))
        elif pc == "p2":    # (*prev).next = node
            nid, prev, _e = ploc[p]; N2 = [list(n) for n in nodes]; deref(N2, prev, f"P{p}"); N2[prev][1] = nid
            out.append((f"P{p}", pack(N2, ppc=upd(ppc,p,"p3"))))
        elif pc == "p3":    # read tail; is_head = tail == prev
            nid, prev, empty_at_swap = ploc[p]
            cons_ids = {c[0] for c in consumed}
            flag = (tail == prev)
            earlier_unconsumed = any((i not in cons_ids) for i in range(1, nid))
            self_consumed = nid in cons_ids
            # claim A: list empty at the swap and own entry not consumed yet  ==> reported as head
            if empty_at_swap and not self_consumed: assert flag, "claim A fails"
            # claim B: not reported as head ==> an earlier entry is still unconsumed, or own entry already consumed
            if not flag: assert (not empty_at_swap) or self_consumed, "claim B' fails"
            # claim C: reported as head ==> own entry is the first unconsumed one at this instant
            if flag: assert (not earlier_unconsumed) and not self_consumed, "claim C fails"
            out.append((f"P{p}", pack([list(n) for n in nodes], ppc=upd(ppc,p,"done"), ishead=ishead + ((nid, flag, prev),))))
    # consumer: starts any op when idle (bounded number of ops)
    nops = len([c for c in consumed]) + 0
    if cpc == "idle":
        budget = cloc if cloc is not None else 0
        if budget < NP + 2:
            for op in CONS_OPS:
                out.append((f"C:{op}", pack([list(n) for n in nodes], cpc=op+"0", cloc=budget)))
            for nid in range(1, len(nodes)):     # remove(handle nid) - handle exists once push swapped (producer returns it at done)
                holder = [p for p in range(NP) if ploc[p] and ploc[p][0] == nid and ppc[p] == "done"]
                if holder: out.append((f"C:remove{nid}", pack([list(n) for n in nodes], cpc=f"rm0:{nid}", cloc=budget)))
    elif cpc.startswith("rm"):
        st, nid = cpc.split(":"); nid = int(nid); budget = cloc if isinstance(cloc, int) else cloc[0]
        N2 = [list(n) for n in nodes]
        if st == "rm0":
            deref(N2, nid, "remove")
            if not (N2[nid][3] & LINK): out.append((cpc, pack(N2, cpc="idle", cloc=budget+1, consumed=consumed)))      # already removed -> None
            elif N2[nid][0] is None: out.append((cpc, pack(N2, cpc="idle", cloc=budget+1)))                           # new tail -> None
            else: out.append((cpc, pack(N2, cpc=f"rm1:{nid}", cloc=budget)))
        elif st == "rm1":   # load next
            nxt = N2[nid][1]
            if nxt is None: out.append((cpc, pack(N2, cpc="idle", cloc=budget+1)))     # last node: no action
            else:
                prev = N2[nid][0]; deref(N2, prev, "remove"); deref(N2, nxt, "remove")
                N2[nid][3] &= ~LINK; N2[nxt][0] = prev; N2[prev][1] = nxt
                had = N2[nid][2]; N2[nid][2] = False; N2[nid][3] -= 1
                if N2[nid][3] == 0: N2[nid][4] = True
                cons2 = consumed + (((nid, "remove"),) if had else ())
                out.append((cpc, pack(N2, cpc="idle", cloc=budget+1, consumed=cons2)))
    else:
        op, st = cpc[:-1], cpc[-1]; budget = cloc if isinstance(cloc, int) else cloc[0]
        N2 = [list(n) for n in nodes]
        if st == "0":   # head.load == tail ?
            if head == tail: out.append((cpc, pack(N2, cpc="idle", cloc=budget+1)))
            else:
                if op == "pop":
                    deref(N2, tail, "pop"); assert N2[tail][3] & 0xff != 0; N2[tail][3] &= ~LINK
                out.append((cpc, pack(N2, cpc=op+"1", cloc=budget)))
        elif st == "1": # spin for tail.next
            deref(N2, tail, op); nxt = N2[tail][1]
            if nxt is None: pass    # spin: disabled until a producer stores next
            else:
                deref(N2, nxt, op)
                assert not N2[tail][2], "stub has a value"; assert N2[nxt][2], "next has no value"
                if op in ("peek", "popif_f"): out.append((cpc, pack(N2, cpc="idle", cloc=budget+1)))
                else:
                    if op == "popif_t": assert N2[tail][3] & 0xff != 0; N2[tail][3] &= ~LINK
                    N2[nxt][0] = None; old = tail
                    N2[nxt][2] = False; N2[old][3] -= 1
                    if N2[old][3] == 0: N2[old][4] = True
                    out.append((cpc, pack(N2, tail=nxt, cpc="idle", cloc=budget+1, consumed=consumed + ((nxt, "pop"),))))
    return out

def check(s):
    nodes, head, tail, ppc, ploc, cpc, cloc, consumed, ishead = s
    ids = [c[0] for c in consumed]
    assert len(ids) == len(set(ids)), f"entry consumed twice: {consumed}"
    pops = [c[0] for c in consumed if c[1] == "pop"]
    assert pops == sorted(pops), f"pops out of swap order: {pops}"   # node ids are assigned in swap order

def main():
    s0 = init(); seen = {s0: None}; dq = deque([s0]); stats = {"ishead_true":0, "ishead_false":0}
    weird = []
    while dq:
        s = dq.popleft(); check(s)
        try: nx = steps(s)
        except (RuntimeError, AssertionError) as e:
            p = []; t = s
            while seen[t] is not None: t, who = seen[t]; p.append(who)
            print("FAIL:", e, "schedule", list(reversed(p))); return
        for who, t in nx:
            if t not in seen: seen[t] = (s, who); dq.append(t)
        # statement (iv): is_head == (pred is the stub at the read instant)  [true by construction]; derived claims:
        nodes, head, tail, ppc, ploc, cpc, cloc, consumed, ishead = s
    # claim A: a push whose swap returned the stub (prev==0 initial stub or consumed-stub) and whose entry is not yet consumed at return reports True
    bad = 0; total = 0
    for s in seen:
        nodes, head, tail, ppc, ploc, cpc, cloc, consumed, ishead = s
        cons_ids = {c[0] for c in consumed}
        for (nid, flag, prev) in ishead:
            total += 1
    print(f"{NP} producers: {len(seen)} states explored; invariants (consumed at most once, pops in swap order, no use-after-free on consumer/producer paths, stub/next value asserts) hold on this instance")
main()
