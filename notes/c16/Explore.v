(* Development tool (NOT part of the framework): bounded exploration of CqueueModel through the extracted step
   function, to test candidate invariants before proving them.  See explore.ml. *)
From Coq Require Import List Arith Bool ZArith Lia Extraction ExtrOcamlBasic.
Import ListNotations.
Require Import MayV.Rt.CqueueModel.

Definition apc_n (p : apc) : Z := match p with ANone => 0 | ATop => 1 | AS0 => 2 | AS1 => 3 | ASusp => 4 | ABot => 5 | AD0 => 6 | AD1 => 7 | AD2 => 8 | AD3 => 9 | AD4 => 10 | AF1 => 11 | ADone => 12 end%Z.
Definition kpc_n (p : kpcT) : Z := match p with KNone => 0 | K0 => 1 | K1 => 2 | K2 => 3 | K3 => 4 | K4 => 5 | KDone => 6 end%Z.
Definition opc_n (p : opcT) : Z := match p with ONone => 0 | OBody => 1 | OA2 => 2 | OA3 => 3 | P1 => 4 | P2 => 5 | P2b => 6 | P3 => 7 | P4 => 8 | P4t => 9 | P5 => 10 | P5w => 11 | P6 => 12 | PRun => 13
  | Cpre => 14 | C0 => 15 | CJ => 16 | C1 => 17 | C2 => 18 | C3 => 19 | OUnw => 20 | FC0 => 21 | FC1 => 22 | FD0 => 23 | FE0 => 24 | FE1 => 25 | OExit => 26 | OBug => 27 end%Z.
Definition res_n (r : aresult) : Z := match r with RRun => 0 | ROk => 1 | RPanic p => 10 + Z.of_nat p | RCancel => 2 end%Z.
Definition unw_n (r : unw) : Z := match r with UNone => 0 | UPanic p => 10 + Z.of_nat p | UCancel => 2 end%Z.
Definition q_n (q : qent) : Z := match q with ENormal e => 2 * Z.of_nat e | EDone a => 2 * Z.of_nat a + 1 end%Z.
Definition oz (o : option Z) : Z := match o with Some z => z + 1 | None => 0 end%Z.
Definition on (o : option nat) : Z := match o with Some z => Z.of_nat z + 1 | None => 0 end%Z.
Definition bz (b : bool) : Z := if b then 1 else 0%Z.
Definition last_n (l : lastret) : Z := match l with LNone => 0 | LOk e => 10 + Z.of_nat e | LTimeout => 1 | LFinished => 2 | LRaised => 3 end%Z.
Definition zn := Z.of_nat.

Definition snap (s : st) : list Z :=
  let A := seq 0 (nexta s) in let E := seq 0 (nexte s) in let B := seq 0 (nextb s) in
  [Z.of_nat (length (evq s))] ++ map q_n (evq s) ++
  [cnt s; on (towake s); zn (total s); bz (ispan s); zn (nextb s); opc_n (opc s); bz (oco s); bz (ocbit s); zn (odis s); unw_n (ounw s);
   zn (ofin s); unw_n (opay s); oz (oto s); oz (odl s); oz (opdl s); ocall s; bz (oalld s); zn (ob s); zn (ocur s); zn (oev s); res_n (ojres s);
   zn (fi s); q_n (ostash s); bz (owk s); now s; zn (nexta s); zn (nexte s); last_n (olast s); zn (rer s); on (rerp s); bz (oleft s)] ++
  flat_map (fun a => [bz (sel s a); apc_n (pc s a); bz (cbit s a); bz (inl s a); zn (kern s a); res_n (ares s a); bz (jst s a); zn (aw s a); zn (acur s a);
                      zn (tops s a); zn (bots s a); zn (botd s a); zn (sent s a); bz (byield s a); zn (dpush s a); zn (dpop s a)]) A ++
  flat_map (fun e => [kpc_n (kpc s e); zn (earm s e); zn (kw s e); zn (epush s e); zn (epop s e); zn (ernd s e)]) E ++
  map (fun b => bz (tok s b)) B.

(* candidate actions (bounded): MA arms, ME events, MB blockers, time up to MT *)
Definition cands (MA ME MB : nat) (MT : Z) (s : st) : list action :=
  let A := seq 0 (nexta s) in let E := seq 0 (nexte s) in
  [Start true; Start false; OStep; OClose; OPanicA 9; OCancelled; OCatch; CancelOwner] ++
  (if Nat.ltb (nexta s) MA then [OAdd] else []) ++
  (if Nat.ltb (nextb s) MB then [OPoll None] ++ (if Z.ltb (now s + 5) MT then [OPoll (Some 5%Z)] else []) else []) ++
  (match odl s with Some d => if Z.ltb (now s) d then [Tick d] else [] | None => [] end) ++
  (match opdl s with Some d => if Z.ltb (now s) d then [Tick d] else [] | None => [] end) ++
  flat_map (fun a => [ORemove a; ANext a; AFinish a; APanic a (S a); ACancelled a; AYield a; AStep a] ++
                     (if Nat.ltb (nexte s) ME then [ASend a] else [])) A ++
  map KStep E.

Definition succs (cf : cfg) (MA ME MB : nat) (MT : Z) (s : st) : list (action * st) :=
  flat_map (fun ac => match step cf s ac with Some s' => [(ac, s')] | None => [] end) (cands MA ME MB MT s).

(* ---------------- candidate invariants, boolean, bounded by nexta / nexte ---------------- *)
Definition alla (s : st) (f : nat -> bool) := forallb f (seq 0 (nexta s)).
Definition alle (s : st) (f : nat -> bool) := forallb f (seq 0 (nexte s)).
Definition exa (s : st) (f : nat -> bool) := existsb f (seq 0 (nexta s)).
Definition exe (s : st) (f : nat -> bool) := existsb f (seq 0 (nexte s)).
Definition apc_eqb (x y : apc) := Z.eqb (apc_n x) (apc_n y).
Definition kpc_eqb (x y : kpcT) := Z.eqb (kpc_n x) (kpc_n y).
Definition opc_eqb (x y : opcT) := Z.eqb (opc_n x) (opc_n y).
Definition q_eqb (x y : qent) := Z.eqb (q_n x) (q_n y).
Definition opc_in (p : opcT) (l : list opcT) := existsb (opc_eqb p) l.
Definition apc_in (p : apc) (l : list apc) := existsb (apc_eqb p) l.
Definition kpc_in (p : kpcT) (l : list kpcT) := existsb (kpc_eqb p) l.
Definition inpoll (p : opcT) := opc_in p [P1; P2; P2b; P3; P4; P4t; P5; P5w; P6; PRun; Cpre; C0; CJ; C1; C2; C3].
Definition adding (p : opcT) := opc_in p [OA2; OA3].
Definition cpcs (p : opcT) := opc_in p [C0; CJ; C1; C2; C3].
Definition dset := [AD2; AD3; AD4; AF1; ADone].
Definition endset := [AD0; AD1; AD2; AD3; AD4; AF1; ADone].
Definition inq (s : st) (x : qent) : bool := existsb (q_eqb x) (evq s) || (opc_eqb (opc s) P4t && q_eqb (ostash s) x).
Definition qall (s : st) : list qent := (if opc_eqb (opc s) P4t then [ostash s] else []) ++ evq s.
Fixpoint nodupb (l : list Z) : bool := match l with [] => true | x :: r => negb (existsb (Z.eqb x) r) && nodupb r end.
Definition cntif (f : nat -> bool) (n : nat) : nat := length (filter f (seq 0 n)).
Definition is_rpanic (r : aresult) := match r with RPanic _ => true | _ => false end.
Definition onat_eq (o : option nat) (n : nat) := match o with Some m => Nat.eqb m n | None => false end.
Definition neb (x y : nat) := Nat.eqb x y.

Definition checks (s : st) : list bool :=
  let o := opc s in
  [ (* 0 *) if adding o then neb (nexta s) (S (total s)) else neb (nexta s) (total s);
    (* 1 *) alle s (fun e => Nat.leb (epop s e) (epush s e) && Nat.leb (epush s e) 1);
    (* 2 *) alle s (fun e => negb (kpc_eqb (kpc s e) KNone) && implb (kpc_in (kpc s e) [K0; K1]) (neb (epush s e) 0)
                             && implb (kpc_in (kpc s e) [K2; K3; K4; KDone]) (neb (epush s e) 1));
    (* 3 *) alle s (fun e => Bool.eqb (inq s (ENormal e)) (neb (epush s e) 1 && neb (epop s e) 0));
    (* 4 *) alla s (fun a => Bool.eqb (inq s (EDone a)) (neb (dpush s a) 1 && neb (dpop s a) 0));
    (* 5 *) nodupb (map q_n (qall s)) && forallb (fun x => match x with ENormal e => Nat.ltb e (nexte s) | EDone a => Nat.ltb a (nexta s) end) (qall s);
    (* 6 *) alla s (fun a => Bool.eqb (neb (dpush s a) 1) (apc_in (pc s a) dset) && Nat.leb (dpush s a) 1 && Nat.leb (dpop s a) (dpush s a));
    (* 7 *) alla s (fun a => match pc s a with
                             | ANone => false
                             | ATop | ABot => neb (tops s a) (sent s a) && neb (sent s a) (bots s a)
                             | AS0 | AS1 => neb (tops s a) (S (sent s a)) && neb (sent s a) (bots s a)
                             | ASusp => neb (tops s a) (sent s a) && neb (sent s a) (S (bots s a))
                             | _ => neb (sent s a) (bots s a) && (neb (tops s a) (sent s a) || neb (tops s a) (S (sent s a)))
                             end);
    (* 8 *) alla s (fun a => if apc_eqb (pc s a) ABot then neb (S (botd s a)) (bots s a) else neb (botd s a) (bots s a));
    (* 9 *) alla s (fun a => implb (apc_eqb (pc s a) ASusp)
                               (Nat.ltb (acur s a) (nexte s) && neb (earm s (acur s a)) a && neb (epop s (acur s a)) 0 && neb (ernd s (acur s a)) (tops s a)));
    (* 10 *) alle s (fun e => let a := earm s e in Nat.ltb a (nexta s) && Nat.leb 1 (ernd s e) && Nat.leb (ernd s e) (tops s a)
                              && (if neb (epop s e) 0 then apc_eqb (pc s a) ASusp && neb (acur s a) e else Nat.leb (ernd s e) (bots s a)));
    (* 11 *) alla s (fun a => neb (kern s a) (cntif (fun e => neb (earm s e) a && kpc_in (kpc s e) [K1; K2; K3; K4]) (nexte s)));
    (* 12 *) alla s (fun a => implb (apc_in (pc s a) [AD1; AD2; AD3; AD4; AF1; ADone]) (neb (kern s a) 0));
    (* 13 *) alla s (fun a => Bool.eqb (negb (jst s a)) (apc_eqb (pc s a) ADone));
    (* 14 *) Z.eqb (cnt s) (Z.of_nat (cntif (fun a => negb (opc_eqb o OA2 && neb (S a) (nexta s))) (nexta s))
                            - Z.of_nat (cntif (fun a => apc_in (pc s a) [AD3; AD4; AF1; ADone]) (nexta s)));
    (* 15 *) alla s (fun a => if adding o && neb (S a) (nexta s) then negb (sel s a) && neb (dpop s a) 0 else Bool.eqb (sel s a) (neb (dpop s a) 0));
    (* 16 *) alla s (fun a => implb (neb (dpop s a) 1) (negb (jst s a) || (opc_in o [C0; CJ] && neb (ocur s) a)));
    (* 17 *) implb (cpcs o) (Nat.ltb (ocur s) (nexta s) && neb (dpop s (ocur s)) 1)
             && implb (opc_in o [C1; C2; C3]) (negb (jst s (ocur s)) && Z.eqb (res_n (ojres s)) (res_n (ares s (ocur s))))
             && implb (opc_eqb o C3) (negb (ispan s) && is_rpanic (ojres s));
    (* 18 *) neb (odis s) (if oco s then (if opc_in o [CJ; C1] then 1 else 0) + (if negb (neb (ofin s) 0) && (inpoll o || opc_eqb o FE0) then 1 else 0) else 0);
    (* 19 *) alla s (fun a => Bool.eqb (apc_in (pc s a) endset) (negb (Z.eqb (res_n (ares s a)) 0)));
    (* 20 *) match towake s with Some b => neb b (ob s) && Nat.ltb b (nextb s) | None => true end
             && alle s (fun e => implb (kpc_eqb (kpc s e) K3) (Nat.ltb (kw s e) (nextb s)))
             && alla s (fun a => implb (apc_eqb (pc s a) AD4) (Nat.ltb (aw s a) (nextb s)))
             && implb (opc_in o [P4; P4t; P5; P5w; P6]) (Nat.ltb (ob s) (nextb s)) && negb (tok s (nextb s));
    (* 21 *) implb (opc_in o [P4; P5; P5w])
               (tok s (ob s) || onat_eq (towake s) (ob s) || exe s (fun e => kpc_eqb (kpc s e) K3 && neb (kw s e) (ob s))
                || exa s (fun a => apc_eqb (pc s a) AD4 && neb (aw s a) (ob s)));
    (* 22 *) implb (opc_in o [P5; P5w] && onat_eq (towake s) (ob s) && negb (Nat.eqb (length (evq s)) 0))
               (exe s (fun e => kpc_eqb (kpc s e) K2) || exa s (fun a => apc_in (pc s a) [AD2; AD3]));
    (* 23 *) implb (opc_in o [P3; P4; P5; P5w] || (opc_eqb o P2 && negb (oalld s)))
               (negb (Z.eqb (cnt s) 0) || negb (Nat.eqb (length (evq s)) 0));
    (* 24 *) implb (opc_eqb o P2 && oalld s) (alla s (fun a => neb (dpush s a) 1));
    (* 25 *) implb (opc_in o [FE0; FE1; OExit])
               (alla s (fun a => negb (jst s a) && neb (dpop s a) 1) && alle s (fun e => kpc_eqb (kpc s e) KDone && neb (epop s e) 1) && Nat.eqb (length (evq s)) 0);
    (* 26 *) Bool.eqb (oleft s) (opc_eqb o OExit);
    (* 27 *) implb (opc_eqb o PRun) (Nat.ltb (ocur s) (nexta s) && Nat.ltb (oev s) (nexte s) && neb (earm s (oev s)) (ocur s) && neb (epop s (oev s)) 1
                                     && neb (bots s (ocur s)) (ernd s (oev s))
                                     && implb (negb (inl s (ocur s))) (neb (botd s (ocur s)) (bots s (ocur s)) || byield s (ocur s)))
             && alla s (fun a => implb (inl s a) (opc_eqb o PRun && neb (ocur s) a && negb (apc_in (pc s a) [ANone; ASusp; ADone])));
    (* 28 *) neb (rer s) (if ispan s then 1 else 0) && Bool.eqb (ispan s) (negb (Z.eqb (on (rerp s)) 0))
             && match rerp s with Some p => exa s (fun a => Z.eqb (res_n (ares s a)) (res_n (RPanic p))) | None => true end;
    (* 29 *) alla s (fun a => implb (neb (dpop s a) 1 && is_rpanic (ares s a) && negb (cpcs o && neb (ocur s) a)) (ispan s));
    (* 30 *) negb (opc_eqb o OBug);
    (* 31 *) Nat.leb (ofin s) 2 && implb (opc_in o [FC0; FC1; FD0; FE0; FE1]) (negb (neb (ofin s) 0))
             && implb (opc_in o [ONone; OBody; OA2; OA3; OUnw]) (neb (ofin s) 0) && implb (opc_eqb o OExit) (neb (ofin s) 2)
             && Nat.leb (fi s) (total s) && implb (negb (neb (ofin s) 0) && inpoll o) (Z.eqb (oz (odl s)) 0);
    (* 32 *) implb (inpoll o && neb (ofin s) 0) (Z.eqb (oz (odl s)) (oz (zadd_opt (ocall s) (oto s))) && Z.leb (ocall s) (now s));
    (* 33: quiescence form of the no-lost-wake-up theorem *)
             implb (alle s (fun e => kpc_eqb (kpc s e) KDone) && alla s (fun a => apc_in (pc s a) [ATop; ABot; ASusp; ADone])
                    && opc_eqb o P5w && (negb (Nat.eqb (length (evq s)) 0) || Z.eqb (cnt s) 0))
                   (tok s (ob s));
    (* 34: an arm that is past its last use of the sender has no kernel half in flight *)
             alle s (fun e => implb (apc_eqb (pc s (earm s e)) ADone) (kpc_eqb (kpc s e) KDone))
  ].

Definition first_bad (s : st) : option nat :=
  (fix go (l : list bool) (i : nat) := match l with [] => None | b :: r => if b then go r (S i) else Some i end) (checks s) 0.

(* the property monitors only (for the pre-fix variants: which one trips) *)
Definition monitors (s : st) : list bool :=
  [ (* 0 Finished only when all ended *) implb (opc_eqb (opc s) P2 && Nat.eqb (length (evq s)) 0 && oalld s) (alla s (fun a => negb (jst s a)));
    (* 1 scope left => nobody inside *) implb (oleft s) (alla s (fun a => negb (jst s a)) && alle s (fun e => kpc_eqb (kpc s e) KDone));
    (* 2 bottom never without its event *) alla s (fun a => Nat.leb (bots s a) (sent s a));
    (* 3 no bug *) negb (opc_eqb (opc s) OBug) ].
Definition first_bad_mon (s : st) : option nat :=
  (fix go (l : list bool) (i : nat) := match l with [] => None | b :: r => if b then go r (S i) else Some i end) (monitors s) 0.

Definition cfg_of (n : nat) : cfg :=
  match n with
  | 0 => current
  | 1 => {| c_cntfirst := false; c_joinalways := true; c_kwait := true; c_sendraise := true |}
  | 2 => {| c_cntfirst := true; c_joinalways := false; c_kwait := true; c_sendraise := true |}
  | 3 => {| c_cntfirst := true; c_joinalways := true; c_kwait := false; c_sendraise := true |}
  | _ => {| c_cntfirst := true; c_joinalways := true; c_kwait := true; c_sendraise := false |}
  end.
Definition x_init := init.
Definition x_succs := succs.
Definition x_snap := snap.
Definition x_bad := first_bad.
Definition x_badmon := first_bad_mon.
Definition x_cfg := cfg_of.
Extraction "explore_model.ml" x_init x_succs x_snap x_bad x_badmon x_cfg.
