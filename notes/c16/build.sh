#!/bin/sh
cd /verif/notes/c16 && timeout 300 coqc -Q /verif/coq MayV Explore.v 2>&1 | grep -v "^$" | head -20 && ocamlfind ocamlopt -O3 -w -a -o explore explore_model.mli explore_model.ml explore.ml 2>&1 | tail -5
