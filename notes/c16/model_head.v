(* Model of may::cqueue (src/cqueue.rs: Cqueue::{add_impl, poll, check_panic, finish, drop}, EventSender::{send,
   subscribe, drop}, Selector::remove, cqueue::scope) and of the select! / cqueue_add! macros (src/macros.rs), AS THE
   CODE IS NOW (after the fix: commits F9, F19, F24-F29).  Definitions only.

   Lower layers are abstract objects (DESIGN 2.1): ev_queue is an atomic FIFO (may_queue::mpsc, C03: push linearises at
   the tail CAS, pop at the head.index store / the tail load that finds nothing); a Blocker is a token (C02: unpark sets
   it, the owner's park consumes it, it is cleared whatever the reason of the resumption); JoinHandle::join is a
   blocking call that returns once Join::trigger has stored `false` (C01/C14); a select coroutine is a token that is
   running, suspended in an event, or done.

   Actors.  ONE owner (the thread or coroutine that called cqueue::scope: it adds, polls, removes and finally runs
   `finish` twice - explicitly with unwinding = false and again from Drop for Cqueue - or once when the closure unwinds);
   any number of ARMS (select coroutines, ids 0,1,..: the id is `total` at add time); one KERNEL HALF per event (the
   `EventSender::subscribe` call executed by whoever resumed the arm when it yielded in `send`).  The program of the
   owner and of every arm is chosen by the schedule (body actions), so quantifying over schedules quantifies over all
   client programs: numbers of arms, rounds per arm (oneshot, loops), polls with and without timeouts, removes, early
   exit, panics, cancellation of the owner.

   One transition per shared-memory access, in program order:
     owner  add_impl   OAdd: total.load + spawn_unsafe (the arm exists from here on)   OA2 cnt.fetch_add   OA3 total.fetch_add
                       (+ selectors.push: `selectors` is only ever touched by the owner, folded)
            poll       OPoll: deadline = now + timeout                P1 cnt.load (all_done)      P2 ev_queue.pop
                       P3 to_wake.store(fresh Blocker)                P4 ev_queue.pop (re-check)   P4t to_wake.take
                       P5 Blocker::park: token set -> consumed, return; cancelled coroutine -> Cancel raised; else suspend
                       P5w suspended; resumed by token / timeout / cancel (a cancel() takes a parked coroutine also when its cancel
                           is disabled: owk; the park then returns Canceled, poll ignores it and loops), the token is cleared whatever the reason,
                           yield_back = check_cancel                  P6 deadline check (Instant::now() >= deadline)
            run_ev     Normal event: continue_bottom = run_coroutine(co): the arm runs INLINE on the owner's stack (PRun)
                       until it yields, blocks or ends, then poll returns Ok(ev)
                       Done event: check_panic: selectors[id].take() (folded into the pop)  C0 disable_cancel [coroutine]
                       CJ handle.join() (blocks until the arm is done)  C1 enable_cancel  C2 is_panicking.load
                       C3 is_panicking.store(true); resume_unwind
            finish     FC0 selectors[fi]: JoinHandle::is_done (Join.state load)   FC1 Coroutine::cancel
                       FD0 disable_cancel   loop { poll(None) } with panics caught   FE0 enable_cancel
                       FE1 if payload && !unwinding { resume_unwind }; return
     arm    top half / bottom half are client code: ASend (top half complete, es.send called), ANext (bottom done, next
            round), AFinish (closure returns), APanic, ACancelled (a cancellable point sees the cancel bit), AYield
            (blocks on something else: the resumer gets its stack back)
            send       AS0 cancel.check_cancel   (extra.store: private)    AS1 yield_with: cancel.is_canceled; not
                       cancelled: the coroutine yields, the kernel half of this event starts; cancelled: co_set_para,
                       yield_back raises Cancel (commit a5b5aee; before it the bottom half ran without an event)
            drop       AD0 kernel.load (spin with wait_kernel_yield until 0)   AD1 ev_queue.push(Done)   AD2 cnt.fetch_sub
                       AD3 to_wake.take   AD4 w.unpark()   AF1 result published, Join::trigger: state.store(false)
     kernel half       K0 kernel.fetch_add   K1 ev_queue.push(Normal, co)   K2 to_wake.take   K3 w.unpark()   K4 kernel.fetch_sub
   Environment: CancelOwner (Coroutine::cancel on the owner), Tick (virtual clock).

   Switches (cfg) for the pre-fix variants (the theorems are about `current`, the `_refuted` witnesses about the others):
     c_cntfirst   = false: poll pops first and reads cnt afterwards (before 58e1f60, F19)
     c_joinalways = false: check_panic returns without joining once is_panicking is set (before 3b27e85, F25)
     c_kwait      = false: EventSender::drop does not wait for the kernel halves (before 5eaa700, F29)
     c_sendraise  = false: a cancelled `send` returns without an event and the bottom half runs (before a5b5aee, F27)

   Ghost: tops/bots/botd (top halves completed, bottom halves started / ended), sent (events created), per event
   epush/epop (times pushed / popped) and ernd (its round), per arm dpush/dpop (Done event), byield (the bottom half in
   progress has blocked), olast (how the last user poll returned), rer/rerp (re-raises of an arm's panic), oleft
   (cqueue::scope has returned or unwound: the Cqueue is gone). *)
From Coq Require Import List Arith Bool ZArith Lia.
Import ListNotations.

Inductive qent := ENormal (e : nat) | EDone (a : nat).
Inductive apc := ANone | ATop | AS0 | AS1 | ASusp | ABot | AD0 | AD1 | AD2 | AD3 | AD4 | AF1 | ADone.
Inductive kpcT := KNone | K0 | K1 | K2 | K3 | K4 | KDone.
Inductive aresult := RRun | ROk | RPanic (p : nat) | RCancel.
Inductive unw := UNone | UPanic (p : nat) | UCancel.
Inductive opcT := ONone | OBody | OA2 | OA3 | P1 | P2 | P2b | P3 | P4 | P4t | P5 | P5w | P6 | PRun
                | Cpre | C0 | CJ | C1 | C2 | C3 | OUnw | FC0 | FC1 | FD0 | FE0 | FE1 | OExit | OBug.
Inductive lastret := LNone | LOk (e : nat) | LTimeout | LFinished | LRaised.

Record cfg := { c_cntfirst : bool; c_joinalways : bool; c_kwait : bool; c_sendraise : bool }.
Definition current : cfg := {| c_cntfirst := true; c_joinalways := true; c_kwait := true; c_sendraise := true |}.

