
val implb : bool -> bool -> bool

val negb : bool -> bool

type nat =
| O
| S of nat

val length : 'a1 list -> nat

val app : 'a1 list -> 'a1 list -> 'a1 list

type comparison =
| Eq
| Lt
| Gt

val compOpp : comparison -> comparison

val add : nat -> nat -> nat

val sub : nat -> nat -> nat

val eqb : bool -> bool -> bool

module Nat :
 sig
  val eqb : nat -> nat -> bool

  val leb : nat -> nat -> bool

  val ltb : nat -> nat -> bool
 end

val map : ('a1 -> 'a2) -> 'a1 list -> 'a2 list

val flat_map : ('a1 -> 'a2 list) -> 'a1 list -> 'a2 list

val existsb : ('a1 -> bool) -> 'a1 list -> bool

val forallb : ('a1 -> bool) -> 'a1 list -> bool

val filter : ('a1 -> bool) -> 'a1 list -> 'a1 list

val seq : nat -> nat -> nat list

type positive =
| XI of positive
| XO of positive
| XH

type z =
| Z0
| Zpos of positive
| Zneg of positive

module Pos :
 sig
  val succ : positive -> positive

  val add : positive -> positive -> positive

  val add_carry : positive -> positive -> positive

  val pred_double : positive -> positive

  val mul : positive -> positive -> positive

  val compare_cont : comparison -> positive -> positive -> comparison

  val compare : positive -> positive -> comparison

  val eqb : positive -> positive -> bool

  val of_succ_nat : nat -> positive
 end

module Z :
 sig
  val double : z -> z

  val succ_double : z -> z

  val pred_double : z -> z

  val pos_sub : positive -> positive -> z

  val add : z -> z -> z

  val opp : z -> z

  val sub : z -> z -> z

  val mul : z -> z -> z

  val compare : z -> z -> comparison

  val leb : z -> z -> bool

  val ltb : z -> z -> bool

  val eqb : z -> z -> bool

  val of_nat : nat -> z
 end

type qent =
| ENormal of nat
| EDone of nat

type apc =
| ANone
| ATop
| AS0
| AS1
| ASusp
| ABot
| AD0
| AD1
| AD2
| AD3
| AD4
| AF1
| ADone

type kpcT =
| KNone
| K0
| K1
| K2
| K3
| K4
| KDone

type aresult =
| RRun
| ROk
| RPanic of nat
| RCancel

type unw =
| UNone
| UPanic of nat
| UCancel

type opcT =
| ONone
| OBody
| OA2
| OA3
| P1
| P2
| P2b
| P3
| P4
| P4t
| P5
| P5w
| P6
| PRun
| Cpre
| C0
| CJ
| C1
| C2
| C3
| OUnw
| FC0
| FC1
| FD0
| FE0
| FE1
| OExit
| OBug

type lastret =
| LNone
| LOk of nat
| LTimeout
| LFinished
| LRaised

type cfg = { c_cntfirst : bool; c_joinalways : bool; c_kwait : bool;
             c_sendraise : bool }

val current : cfg

type st = { evq : qent list; cnt : z; towake : nat option;
            sel : (nat -> bool); total : nat; ispan : bool;
            pc : (nat -> apc); cbit : (nat -> bool); inl : (nat -> bool);
            kern : (nat -> nat); ares : (nat -> aresult);
            jst : (nat -> bool); aw : (nat -> nat); acur : (nat -> nat);
            kpc : (nat -> kpcT); earm : (nat -> nat); kw : (nat -> nat);
            tok : (nat -> bool); nextb : nat; opc : opcT; oco : bool;
            ocbit : bool; odis : nat; ounw : unw; ofin : nat; opay : 
            unw; oto : z option; odl : z option; opdl : z option; ocall : 
            z; oalld : bool; ob : nat; ocur : nat; oev : nat;
            ojres : aresult; fi : nat; ostash : qent; now : z; nexta : 
            nat; nexte : nat; tops : (nat -> nat); bots : (nat -> nat);
            botd : (nat -> nat); sent : (nat -> nat); byield : (nat -> bool);
            epush : (nat -> nat); epop : (nat -> nat); ernd : (nat -> nat);
            dpush : (nat -> nat); dpop : (nat -> nat); olast : lastret;
            rer : nat; rerp : nat option; oleft : bool }

val set_evq : st -> qent list -> st

val set_cnt : st -> z -> st

val set_towake : st -> nat option -> st

val set_sel : st -> (nat -> bool) -> st

val set_total : st -> nat -> st

val set_ispan : st -> bool -> st

val set_pc : st -> (nat -> apc) -> st

val set_cbit : st -> (nat -> bool) -> st

val set_inl : st -> (nat -> bool) -> st

val set_kern : st -> (nat -> nat) -> st

val set_ares : st -> (nat -> aresult) -> st

val set_jst : st -> (nat -> bool) -> st

val set_aw : st -> (nat -> nat) -> st

val set_acur : st -> (nat -> nat) -> st

val set_kpc : st -> (nat -> kpcT) -> st

val set_earm : st -> (nat -> nat) -> st

val set_kw : st -> (nat -> nat) -> st

val set_tok : st -> (nat -> bool) -> st

val set_nextb : st -> nat -> st

val set_opc : st -> opcT -> st

val set_oco : st -> bool -> st

val set_ocbit : st -> bool -> st

val set_odis : st -> nat -> st

val set_ounw : st -> unw -> st

val set_ofin : st -> nat -> st

val set_opay : st -> unw -> st

val set_oto : st -> z option -> st

val set_odl : st -> z option -> st

val set_opdl : st -> z option -> st

val set_ocall : st -> z -> st

val set_oalld : st -> bool -> st

val set_ob : st -> nat -> st

val set_ocur : st -> nat -> st

val set_oev : st -> nat -> st

val set_ojres : st -> aresult -> st

val set_fi : st -> nat -> st

val set_ostash : st -> qent -> st

val set_now : st -> z -> st

val set_nexta : st -> nat -> st

val set_nexte : st -> nat -> st

val set_tops : st -> (nat -> nat) -> st

val set_bots : st -> (nat -> nat) -> st

val set_botd : st -> (nat -> nat) -> st

val set_sent : st -> (nat -> nat) -> st

val set_byield : st -> (nat -> bool) -> st

val set_epush : st -> (nat -> nat) -> st

val set_epop : st -> (nat -> nat) -> st

val set_ernd : st -> (nat -> nat) -> st

val set_dpush : st -> (nat -> nat) -> st

val set_dpop : st -> (nat -> nat) -> st

val set_olast : st -> lastret -> st

val set_rer : st -> nat -> st

val set_rerp : st -> nat option -> st

val set_oleft : st -> bool -> st

val upd : (nat -> 'a1) -> nat -> 'a1 -> nat -> 'a1

type action =
| Start of bool
| OAdd
| OPoll of z option
| ORemove of nat
| OClose
| OPanicA of nat
| OCancelled
| OCatch
| OStep
| CancelOwner
| Tick of z
| ASend of nat
| ANext of nat
| AFinish of nat
| APanic of nat * nat
| ACancelled of nat
| AYield of nat
| AStep of nat
| KStep of nat

val is_onone : opcT -> bool

val cancel_due : st -> bool

val zle_opt : z option -> z -> bool

val zadd_opt : z -> z option -> z option

val to_ok : z option -> bool

val first_unw : unw -> unw -> unw

val user_pc : apc -> bool

val is_abot : apc -> bool

val wpc : st -> nat -> apc -> st

val wkpc : st -> nat -> kpcT -> st

val raise_poll : st -> unw -> st

val ret_ok : st -> st

val ret_finished : st -> st

val ret_timeout : st -> st

val take_handle : st -> nat -> st

val handle_ev : cfg -> st -> qent -> st

val start_drain : st -> st

val arm_end : st -> nat -> aresult -> st

val ostep : cfg -> st -> st option

val astep : cfg -> st -> nat -> st option

val kstep : st -> nat -> st option

val step : cfg -> st -> action -> st option

val init : st

val apc_n : apc -> z

val kpc_n : kpcT -> z

val opc_n : opcT -> z

val res_n : aresult -> z

val unw_n : unw -> z

val q_n : qent -> z

val oz : z option -> z

val on : nat option -> z

val bz : bool -> z

val last_n : lastret -> z

val zn : nat -> z

val snap : st -> z list

val cands : nat -> nat -> nat -> z -> st -> action list

val succs : cfg -> nat -> nat -> nat -> z -> st -> (action * st) list

val alla : st -> (nat -> bool) -> bool

val alle : st -> (nat -> bool) -> bool

val exa : st -> (nat -> bool) -> bool

val exe : st -> (nat -> bool) -> bool

val apc_eqb : apc -> apc -> bool

val kpc_eqb : kpcT -> kpcT -> bool

val opc_eqb : opcT -> opcT -> bool

val q_eqb : qent -> qent -> bool

val opc_in : opcT -> opcT list -> bool

val apc_in : apc -> apc list -> bool

val kpc_in : kpcT -> kpcT list -> bool

val inpoll : opcT -> bool

val adding : opcT -> bool

val cpcs : opcT -> bool

val dset : apc list

val endset : apc list

val inq : st -> qent -> bool

val qall : st -> qent list

val nodupb : z list -> bool

val cntif : (nat -> bool) -> nat -> nat

val is_rpanic : aresult -> bool

val onat_eq : nat option -> nat -> bool

val neb : nat -> nat -> bool

val checks : st -> bool list

val first_bad : st -> nat option

val monitors : st -> bool list

val first_bad_mon : st -> nat option

val cfg_of : nat -> cfg

val x_init : st

val x_succs : cfg -> nat -> nat -> nat -> z -> st -> (action * st) list

val x_snap : st -> z list

val x_bad : st -> nat option

val x_badmon : st -> nat option

val x_cfg : nat -> cfg
