
(** val implb : bool -> bool -> bool **)

let implb b1 b2 =
  if b1 then b2 else true

(** val negb : bool -> bool **)

let negb = function
| true -> false
| false -> true

type nat =
| O
| S of nat

(** val length : 'a1 list -> nat **)

let rec length = function
| [] -> O
| _ :: l' -> S (length l')

(** val app : 'a1 list -> 'a1 list -> 'a1 list **)

let rec app l m =
  match l with
  | [] -> m
  | a :: l1 -> a :: (app l1 m)

type comparison =
| Eq
| Lt
| Gt

(** val compOpp : comparison -> comparison **)

let compOpp = function
| Eq -> Eq
| Lt -> Gt
| Gt -> Lt

(** val add : nat -> nat -> nat **)

let rec add n m =
  match n with
  | O -> m
  | S p -> S (add p m)

(** val sub : nat -> nat -> nat **)

let rec sub n m =
  match n with
  | O -> n
  | S k -> (match m with
            | O -> n
            | S l -> sub k l)

(** val eqb : bool -> bool -> bool **)

let eqb b1 b2 =
  if b1 then b2 else if b2 then false else true

module Nat =
 struct
  (** val eqb : nat -> nat -> bool **)

  let rec eqb n m =
    match n with
    | O -> (match m with
            | O -> true
            | S _ -> false)
    | S n' -> (match m with
               | O -> false
               | S m' -> eqb n' m')

  (** val leb : nat -> nat -> bool **)

  let rec leb n m =
    match n with
    | O -> true
    | S n' -> (match m with
               | O -> false
               | S m' -> leb n' m')

  (** val ltb : nat -> nat -> bool **)

  let ltb n m =
    leb (S n) m
 end

(** val map : ('a1 -> 'a2) -> 'a1 list -> 'a2 list **)

let rec map f = function
| [] -> []
| a :: t -> (f a) :: (map f t)

(** val flat_map : ('a1 -> 'a2 list) -> 'a1 list -> 'a2 list **)

let rec flat_map f = function
| [] -> []
| x :: t -> app (f x) (flat_map f t)

(** val existsb : ('a1 -> bool) -> 'a1 list -> bool **)

let rec existsb f = function
| [] -> false
| a :: l0 -> (||) (f a) (existsb f l0)

(** val forallb : ('a1 -> bool) -> 'a1 list -> bool **)

let rec forallb f = function
| [] -> true
| a :: l0 -> (&&) (f a) (forallb f l0)

(** val filter : ('a1 -> bool) -> 'a1 list -> 'a1 list **)

let rec filter f = function
| [] -> []
| x :: l0 -> if f x then x :: (filter f l0) else filter f l0

(** val seq : nat -> nat -> nat list **)

let rec seq start = function
| O -> []
| S len0 -> start :: (seq (S start) len0)

type positive =
| XI of positive
| XO of positive
| XH

type z =
| Z0
| Zpos of positive
| Zneg of positive

module Pos =
 struct
  (** val succ : positive -> positive **)

  let rec succ = function
  | XI p -> XO (succ p)
  | XO p -> XI p
  | XH -> XO XH

  (** val add : positive -> positive -> positive **)

  let rec add x y =
    match x with
    | XI p ->
      (match y with
       | XI q -> XO (add_carry p q)
       | XO q -> XI (add p q)
       | XH -> XO (succ p))
    | XO p ->
      (match y with
       | XI q -> XI (add p q)
       | XO q -> XO (add p q)
       | XH -> XI p)
    | XH -> (match y with
             | XI q -> XO (succ q)
             | XO q -> XI q
             | XH -> XO XH)

  (** val add_carry : positive -> positive -> positive **)

  and add_carry x y =
    match x with
    | XI p ->
      (match y with
       | XI q -> XI (add_carry p q)
       | XO q -> XO (add_carry p q)
       | XH -> XI (succ p))
    | XO p ->
      (match y with
       | XI q -> XO (add_carry p q)
       | XO q -> XI (add p q)
       | XH -> XO (succ p))
    | XH ->
      (match y with
       | XI q -> XI (succ q)
       | XO q -> XO (succ q)
       | XH -> XI XH)

  (** val pred_double : positive -> positive **)

  let rec pred_double = function
  | XI p -> XI (XO p)
  | XO p -> XI (pred_double p)
  | XH -> XH

  (** val mul : positive -> positive -> positive **)

  let rec mul x y =
    match x with
    | XI p -> add y (XO (mul p y))
    | XO p -> XO (mul p y)
    | XH -> y

  (** val compare_cont : comparison -> positive -> positive -> comparison **)

  let rec compare_cont r x y =
    match x with
    | XI p ->
      (match y with
       | XI q -> compare_cont r p q
       | XO q -> compare_cont Gt p q
       | XH -> Gt)
    | XO p ->
      (match y with
       | XI q -> compare_cont Lt p q
       | XO q -> compare_cont r p q
       | XH -> Gt)
    | XH -> (match y with
             | XH -> r
             | _ -> Lt)

  (** val compare : positive -> positive -> comparison **)

  let compare =
    compare_cont Eq

  (** val eqb : positive -> positive -> bool **)

  let rec eqb p q =
    match p with
    | XI p0 -> (match q with
                | XI q0 -> eqb p0 q0
                | _ -> false)
    | XO p0 -> (match q with
                | XO q0 -> eqb p0 q0
                | _ -> false)
    | XH -> (match q with
             | XH -> true
             | _ -> false)

  (** val of_succ_nat : nat -> positive **)

  let rec of_succ_nat = function
  | O -> XH
  | S x -> succ (of_succ_nat x)
 end

module Z =
 struct
  (** val double : z -> z **)

  let double = function
  | Z0 -> Z0
  | Zpos p -> Zpos (XO p)
  | Zneg p -> Zneg (XO p)

  (** val succ_double : z -> z **)

  let succ_double = function
  | Z0 -> Zpos XH
  | Zpos p -> Zpos (XI p)
  | Zneg p -> Zneg (Pos.pred_double p)

  (** val pred_double : z -> z **)

  let pred_double = function
  | Z0 -> Zneg XH
  | Zpos p -> Zpos (Pos.pred_double p)
  | Zneg p -> Zneg (XI p)

  (** val pos_sub : positive -> positive -> z **)

  let rec pos_sub x y =
    match x with
    | XI p ->
      (match y with
       | XI q -> double (pos_sub p q)
       | XO q -> succ_double (pos_sub p q)
       | XH -> Zpos (XO p))
    | XO p ->
      (match y with
       | XI q -> pred_double (pos_sub p q)
       | XO q -> double (pos_sub p q)
       | XH -> Zpos (Pos.pred_double p))
    | XH ->
      (match y with
       | XI q -> Zneg (XO q)
       | XO q -> Zneg (Pos.pred_double q)
       | XH -> Z0)

  (** val add : z -> z -> z **)

  let add x y =
    match x with
    | Z0 -> y
    | Zpos x' ->
      (match y with
       | Z0 -> x
       | Zpos y' -> Zpos (Pos.add x' y')
       | Zneg y' -> pos_sub x' y')
    | Zneg x' ->
      (match y with
       | Z0 -> x
       | Zpos y' -> pos_sub y' x'
       | Zneg y' -> Zneg (Pos.add x' y'))

  (** val opp : z -> z **)

  let opp = function
  | Z0 -> Z0
  | Zpos x0 -> Zneg x0
  | Zneg x0 -> Zpos x0

  (** val sub : z -> z -> z **)

  let sub m n =
    add m (opp n)

  (** val mul : z -> z -> z **)

  let mul x y =
    match x with
    | Z0 -> Z0
    | Zpos x' ->
      (match y with
       | Z0 -> Z0
       | Zpos y' -> Zpos (Pos.mul x' y')
       | Zneg y' -> Zneg (Pos.mul x' y'))
    | Zneg x' ->
      (match y with
       | Z0 -> Z0
       | Zpos y' -> Zneg (Pos.mul x' y')
       | Zneg y' -> Zpos (Pos.mul x' y'))

  (** val compare : z -> z -> comparison **)

  let compare x y =
    match x with
    | Z0 -> (match y with
             | Z0 -> Eq
             | Zpos _ -> Lt
             | Zneg _ -> Gt)
    | Zpos x' -> (match y with
                  | Zpos y' -> Pos.compare x' y'
                  | _ -> Gt)
    | Zneg x' ->
      (match y with
       | Zneg y' -> compOpp (Pos.compare x' y')
       | _ -> Lt)

  (** val leb : z -> z -> bool **)

  let leb x y =
    match compare x y with
    | Gt -> false
    | _ -> true

  (** val ltb : z -> z -> bool **)

  let ltb x y =
    match compare x y with
    | Lt -> true
    | _ -> false

  (** val eqb : z -> z -> bool **)

  let eqb x y =
    match x with
    | Z0 -> (match y with
             | Z0 -> true
             | _ -> false)
    | Zpos p -> (match y with
                 | Zpos q -> Pos.eqb p q
                 | _ -> false)
    | Zneg p -> (match y with
                 | Zneg q -> Pos.eqb p q
                 | _ -> false)

  (** val of_nat : nat -> z **)

  let of_nat = function
  | O -> Z0
  | S n0 -> Zpos (Pos.of_succ_nat n0)
 end

type qent =
| ENormal of nat
| EDone of nat

type apc =
| ANone
| ATop
| AS0
| AS1
| ASusp
| ABot
| AD0
| AD1
| AD2
| AD3
| AD4
| AF1
| ADone

type kpcT =
| KNone
| K0
| K1
| K2
| K3
| K4
| KDone

type aresult =
| RRun
| ROk
| RPanic of nat
| RCancel

type unw =
| UNone
| UPanic of nat
| UCancel

type opcT =
| ONone
| OBody
| OA2
| OA3
| P1
| P2
| P2b
| P3
| P4
| P4t
| P5
| P5w
| P6
| PRun
| Cpre
| C0
| CJ
| C1
| C2
| C3
| OUnw
| FC0
| FC1
| FD0
| FE0
| FE1
| OExit
| OBug

type lastret =
| LNone
| LOk of nat
| LTimeout
| LFinished
| LRaised

type cfg = { c_cntfirst : bool; c_joinalways : bool; c_kwait : bool;
             c_sendraise : bool }

(** val current : cfg **)

let current =
  { c_cntfirst = true; c_joinalways = true; c_kwait = true; c_sendraise =
    true }

type st = { evq : qent list; cnt : z; towake : nat option;
            sel : (nat -> bool); total : nat; ispan : bool;
            pc : (nat -> apc); cbit : (nat -> bool); inl : (nat -> bool);
            kern : (nat -> nat); ares : (nat -> aresult);
            jst : (nat -> bool); aw : (nat -> nat); acur : (nat -> nat);
            kpc : (nat -> kpcT); earm : (nat -> nat); kw : (nat -> nat);
            tok : (nat -> bool); nextb : nat; opc : opcT; oco : bool;
            ocbit : bool; odis : nat; ounw : unw; ofin : nat; opay : 
            unw; oto : z option; odl : z option; opdl : z option; ocall : 
            z; oalld : bool; ob : nat; ocur : nat; oev : nat;
            ojres : aresult; fi : nat; ostash : qent; now : z; nexta : 
            nat; nexte : nat; tops : (nat -> nat); bots : (nat -> nat);
            botd : (nat -> nat); sent : (nat -> nat); byield : (nat -> bool);
            epush : (nat -> nat); epop : (nat -> nat); ernd : (nat -> nat);
            dpush : (nat -> nat); dpop : (nat -> nat); olast : lastret;
            rer : nat; rerp : nat option; oleft : bool }

(** val set_evq : st -> qent list -> st **)

let set_evq s v =
  { evq = v; cnt = s.cnt; towake = s.towake; sel = s.sel; total = s.total;
    ispan = s.ispan; pc = s.pc; cbit = s.cbit; inl = s.inl; kern = s.kern;
    ares = s.ares; jst = s.jst; aw = s.aw; acur = s.acur; kpc = s.kpc; earm =
    s.earm; kw = s.kw; tok = s.tok; nextb = s.nextb; opc = s.opc; oco =
    s.oco; ocbit = s.ocbit; odis = s.odis; ounw = s.ounw; ofin = s.ofin;
    opay = s.opay; oto = s.oto; odl = s.odl; opdl = s.opdl; ocall = s.ocall;
    oalld = s.oalld; ob = s.ob; ocur = s.ocur; oev = s.oev; ojres = s.ojres;
    fi = s.fi; ostash = s.ostash; now = s.now; nexta = s.nexta; nexte =
    s.nexte; tops = s.tops; bots = s.bots; botd = s.botd; sent = s.sent;
    byield = s.byield; epush = s.epush; epop = s.epop; ernd = s.ernd; dpush =
    s.dpush; dpop = s.dpop; olast = s.olast; rer = s.rer; rerp = s.rerp;
    oleft = s.oleft }

(** val set_cnt : st -> z -> st **)

let set_cnt s v =
  { evq = s.evq; cnt = v; towake = s.towake; sel = s.sel; total = s.total;
    ispan = s.ispan; pc = s.pc; cbit = s.cbit; inl = s.inl; kern = s.kern;
    ares = s.ares; jst = s.jst; aw = s.aw; acur = s.acur; kpc = s.kpc; earm =
    s.earm; kw = s.kw; tok = s.tok; nextb = s.nextb; opc = s.opc; oco =
    s.oco; ocbit = s.ocbit; odis = s.odis; ounw = s.ounw; ofin = s.ofin;
    opay = s.opay; oto = s.oto; odl = s.odl; opdl = s.opdl; ocall = s.ocall;
    oalld = s.oalld; ob = s.ob; ocur = s.ocur; oev = s.oev; ojres = s.ojres;
    fi = s.fi; ostash = s.ostash; now = s.now; nexta = s.nexta; nexte =
    s.nexte; tops = s.tops; bots = s.bots; botd = s.botd; sent = s.sent;
    byield = s.byield; epush = s.epush; epop = s.epop; ernd = s.ernd; dpush =
    s.dpush; dpop = s.dpop; olast = s.olast; rer = s.rer; rerp = s.rerp;
    oleft = s.oleft }

(** val set_towake : st -> nat option -> st **)

let set_towake s v =
  { evq = s.evq; cnt = s.cnt; towake = v; sel = s.sel; total = s.total;
    ispan = s.ispan; pc = s.pc; cbit = s.cbit; inl = s.inl; kern = s.kern;
    ares = s.ares; jst = s.jst; aw = s.aw; acur = s.acur; kpc = s.kpc; earm =
    s.earm; kw = s.kw; tok = s.tok; nextb = s.nextb; opc = s.opc; oco =
    s.oco; ocbit = s.ocbit; odis = s.odis; ounw = s.ounw; ofin = s.ofin;
    opay = s.opay; oto = s.oto; odl = s.odl; opdl = s.opdl; ocall = s.ocall;
    oalld = s.oalld; ob = s.ob; ocur = s.ocur; oev = s.oev; ojres = s.ojres;
    fi = s.fi; ostash = s.ostash; now = s.now; nexta = s.nexta; nexte =
    s.nexte; tops = s.tops; bots = s.bots; botd = s.botd; sent = s.sent;
    byield = s.byield; epush = s.epush; epop = s.epop; ernd = s.ernd; dpush =
    s.dpush; dpop = s.dpop; olast = s.olast; rer = s.rer; rerp = s.rerp;
    oleft = s.oleft }

(** val set_sel : st -> (nat -> bool) -> st **)

let set_sel s v =
  { evq = s.evq; cnt = s.cnt; towake = s.towake; sel = v; total = s.total;
    ispan = s.ispan; pc = s.pc; cbit = s.cbit; inl = s.inl; kern = s.kern;
    ares = s.ares; jst = s.jst; aw = s.aw; acur = s.acur; kpc = s.kpc; earm =
    s.earm; kw = s.kw; tok = s.tok; nextb = s.nextb; opc = s.opc; oco =
    s.oco; ocbit = s.ocbit; odis = s.odis; ounw = s.ounw; ofin = s.ofin;
    opay = s.opay; oto = s.oto; odl = s.odl; opdl = s.opdl; ocall = s.ocall;
    oalld = s.oalld; ob = s.ob; ocur = s.ocur; oev = s.oev; ojres = s.ojres;
    fi = s.fi; ostash = s.ostash; now = s.now; nexta = s.nexta; nexte =
    s.nexte; tops = s.tops; bots = s.bots; botd = s.botd; sent = s.sent;
    byield = s.byield; epush = s.epush; epop = s.epop; ernd = s.ernd; dpush =
    s.dpush; dpop = s.dpop; olast = s.olast; rer = s.rer; rerp = s.rerp;
    oleft = s.oleft }

(** val set_total : st -> nat -> st **)

let set_total s v =
  { evq = s.evq; cnt = s.cnt; towake = s.towake; sel = s.sel; total = v;
    ispan = s.ispan; pc = s.pc; cbit = s.cbit; inl = s.inl; kern = s.kern;
    ares = s.ares; jst = s.jst; aw = s.aw; acur = s.acur; kpc = s.kpc; earm =
    s.earm; kw = s.kw; tok = s.tok; nextb = s.nextb; opc = s.opc; oco =
    s.oco; ocbit = s.ocbit; odis = s.odis; ounw = s.ounw; ofin = s.ofin;
    opay = s.opay; oto = s.oto; odl = s.odl; opdl = s.opdl; ocall = s.ocall;
    oalld = s.oalld; ob = s.ob; ocur = s.ocur; oev = s.oev; ojres = s.ojres;
    fi = s.fi; ostash = s.ostash; now = s.now; nexta = s.nexta; nexte =
    s.nexte; tops = s.tops; bots = s.bots; botd = s.botd; sent = s.sent;
    byield = s.byield; epush = s.epush; epop = s.epop; ernd = s.ernd; dpush =
    s.dpush; dpop = s.dpop; olast = s.olast; rer = s.rer; rerp = s.rerp;
    oleft = s.oleft }

(** val set_ispan : st -> bool -> st **)

let set_ispan s v =
  { evq = s.evq; cnt = s.cnt; towake = s.towake; sel = s.sel; total =
    s.total; ispan = v; pc = s.pc; cbit = s.cbit; inl = s.inl; kern = s.kern;
    ares = s.ares; jst = s.jst; aw = s.aw; acur = s.acur; kpc = s.kpc; earm =
    s.earm; kw = s.kw; tok = s.tok; nextb = s.nextb; opc = s.opc; oco =
    s.oco; ocbit = s.ocbit; odis = s.odis; ounw = s.ounw; ofin = s.ofin;
    opay = s.opay; oto = s.oto; odl = s.odl; opdl = s.opdl; ocall = s.ocall;
    oalld = s.oalld; ob = s.ob; ocur = s.ocur; oev = s.oev; ojres = s.ojres;
    fi = s.fi; ostash = s.ostash; now = s.now; nexta = s.nexta; nexte =
    s.nexte; tops = s.tops; bots = s.bots; botd = s.botd; sent = s.sent;
    byield = s.byield; epush = s.epush; epop = s.epop; ernd = s.ernd; dpush =
    s.dpush; dpop = s.dpop; olast = s.olast; rer = s.rer; rerp = s.rerp;
    oleft = s.oleft }

(** val set_pc : st -> (nat -> apc) -> st **)

let set_pc s v =
  { evq = s.evq; cnt = s.cnt; towake = s.towake; sel = s.sel; total =
    s.total; ispan = s.ispan; pc = v; cbit = s.cbit; inl = s.inl; kern =
    s.kern; ares = s.ares; jst = s.jst; aw = s.aw; acur = s.acur; kpc =
    s.kpc; earm = s.earm; kw = s.kw; tok = s.tok; nextb = s.nextb; opc =
    s.opc; oco = s.oco; ocbit = s.ocbit; odis = s.odis; ounw = s.ounw; ofin =
    s.ofin; opay = s.opay; oto = s.oto; odl = s.odl; opdl = s.opdl; ocall =
    s.ocall; oalld = s.oalld; ob = s.ob; ocur = s.ocur; oev = s.oev; ojres =
    s.ojres; fi = s.fi; ostash = s.ostash; now = s.now; nexta = s.nexta;
    nexte = s.nexte; tops = s.tops; bots = s.bots; botd = s.botd; sent =
    s.sent; byield = s.byield; epush = s.epush; epop = s.epop; ernd = s.ernd;
    dpush = s.dpush; dpop = s.dpop; olast = s.olast; rer = s.rer; rerp =
    s.rerp; oleft = s.oleft }

(** val set_cbit : st -> (nat -> bool) -> st **)

let set_cbit s v =
  { evq = s.evq; cnt = s.cnt; towake = s.towake; sel = s.sel; total =
    s.total; ispan = s.ispan; pc = s.pc; cbit = v; inl = s.inl; kern =
    s.kern; ares = s.ares; jst = s.jst; aw = s.aw; acur = s.acur; kpc =
    s.kpc; earm = s.earm; kw = s.kw; tok = s.tok; nextb = s.nextb; opc =
    s.opc; oco = s.oco; ocbit = s.ocbit; odis = s.odis; ounw = s.ounw; ofin =
    s.ofin; opay = s.opay; oto = s.oto; odl = s.odl; opdl = s.opdl; ocall =
    s.ocall; oalld = s.oalld; ob = s.ob; ocur = s.ocur; oev = s.oev; ojres =
    s.ojres; fi = s.fi; ostash = s.ostash; now = s.now; nexta = s.nexta;
    nexte = s.nexte; tops = s.tops; bots = s.bots; botd = s.botd; sent =
    s.sent; byield = s.byield; epush = s.epush; epop = s.epop; ernd = s.ernd;
    dpush = s.dpush; dpop = s.dpop; olast = s.olast; rer = s.rer; rerp =
    s.rerp; oleft = s.oleft }

(** val set_inl : st -> (nat -> bool) -> st **)

let set_inl s v =
  { evq = s.evq; cnt = s.cnt; towake = s.towake; sel = s.sel; total =
    s.total; ispan = s.ispan; pc = s.pc; cbit = s.cbit; inl = v; kern =
    s.kern; ares = s.ares; jst = s.jst; aw = s.aw; acur = s.acur; kpc =
    s.kpc; earm = s.earm; kw = s.kw; tok = s.tok; nextb = s.nextb; opc =
    s.opc; oco = s.oco; ocbit = s.ocbit; odis = s.odis; ounw = s.ounw; ofin =
    s.ofin; opay = s.opay; oto = s.oto; odl = s.odl; opdl = s.opdl; ocall =
    s.ocall; oalld = s.oalld; ob = s.ob; ocur = s.ocur; oev = s.oev; ojres =
    s.ojres; fi = s.fi; ostash = s.ostash; now = s.now; nexta = s.nexta;
    nexte = s.nexte; tops = s.tops; bots = s.bots; botd = s.botd; sent =
    s.sent; byield = s.byield; epush = s.epush; epop = s.epop; ernd = s.ernd;
    dpush = s.dpush; dpop = s.dpop; olast = s.olast; rer = s.rer; rerp =
    s.rerp; oleft = s.oleft }

(** val set_kern : st -> (nat -> nat) -> st **)

let set_kern s v =
  { evq = s.evq; cnt = s.cnt; towake = s.towake; sel = s.sel; total =
    s.total; ispan = s.ispan; pc = s.pc; cbit = s.cbit; inl = s.inl; kern =
    v; ares = s.ares; jst = s.jst; aw = s.aw; acur = s.acur; kpc = s.kpc;
    earm = s.earm; kw = s.kw; tok = s.tok; nextb = s.nextb; opc = s.opc;
    oco = s.oco; ocbit = s.ocbit; odis = s.odis; ounw = s.ounw; ofin =
    s.ofin; opay = s.opay; oto = s.oto; odl = s.odl; opdl = s.opdl; ocall =
    s.ocall; oalld = s.oalld; ob = s.ob; ocur = s.ocur; oev = s.oev; ojres =
    s.ojres; fi = s.fi; ostash = s.ostash; now = s.now; nexta = s.nexta;
    nexte = s.nexte; tops = s.tops; bots = s.bots; botd = s.botd; sent =
    s.sent; byield = s.byield; epush = s.epush; epop = s.epop; ernd = s.ernd;
    dpush = s.dpush; dpop = s.dpop; olast = s.olast; rer = s.rer; rerp =
    s.rerp; oleft = s.oleft }

(** val set_ares : st -> (nat -> aresult) -> st **)

let set_ares s v =
  { evq = s.evq; cnt = s.cnt; towake = s.towake; sel = s.sel; total =
    s.total; ispan = s.ispan; pc = s.pc; cbit = s.cbit; inl = s.inl; kern =
    s.kern; ares = v; jst = s.jst; aw = s.aw; acur = s.acur; kpc = s.kpc;
    earm = s.earm; kw = s.kw; tok = s.tok; nextb = s.nextb; opc = s.opc;
    oco = s.oco; ocbit = s.ocbit; odis = s.odis; ounw = s.ounw; ofin =
    s.ofin; opay = s.opay; oto = s.oto; odl = s.odl; opdl = s.opdl; ocall =
    s.ocall; oalld = s.oalld; ob = s.ob; ocur = s.ocur; oev = s.oev; ojres =
    s.ojres; fi = s.fi; ostash = s.ostash; now = s.now; nexta = s.nexta;
    nexte = s.nexte; tops = s.tops; bots = s.bots; botd = s.botd; sent =
    s.sent; byield = s.byield; epush = s.epush; epop = s.epop; ernd = s.ernd;
    dpush = s.dpush; dpop = s.dpop; olast = s.olast; rer = s.rer; rerp =
    s.rerp; oleft = s.oleft }

(** val set_jst : st -> (nat -> bool) -> st **)

let set_jst s v =
  { evq = s.evq; cnt = s.cnt; towake = s.towake; sel = s.sel; total =
    s.total; ispan = s.ispan; pc = s.pc; cbit = s.cbit; inl = s.inl; kern =
    s.kern; ares = s.ares; jst = v; aw = s.aw; acur = s.acur; kpc = s.kpc;
    earm = s.earm; kw = s.kw; tok = s.tok; nextb = s.nextb; opc = s.opc;
    oco = s.oco; ocbit = s.ocbit; odis = s.odis; ounw = s.ounw; ofin =
    s.ofin; opay = s.opay; oto = s.oto; odl = s.odl; opdl = s.opdl; ocall =
    s.ocall; oalld = s.oalld; ob = s.ob; ocur = s.ocur; oev = s.oev; ojres =
    s.ojres; fi = s.fi; ostash = s.ostash; now = s.now; nexta = s.nexta;
    nexte = s.nexte; tops = s.tops; bots = s.bots; botd = s.botd; sent =
    s.sent; byield = s.byield; epush = s.epush; epop = s.epop; ernd = s.ernd;
    dpush = s.dpush; dpop = s.dpop; olast = s.olast; rer = s.rer; rerp =
    s.rerp; oleft = s.oleft }

(** val set_aw : st -> (nat -> nat) -> st **)

let set_aw s v =
  { evq = s.evq; cnt = s.cnt; towake = s.towake; sel = s.sel; total =
    s.total; ispan = s.ispan; pc = s.pc; cbit = s.cbit; inl = s.inl; kern =
    s.kern; ares = s.ares; jst = s.jst; aw = v; acur = s.acur; kpc = s.kpc;
    earm = s.earm; kw = s.kw; tok = s.tok; nextb = s.nextb; opc = s.opc;
    oco = s.oco; ocbit = s.ocbit; odis = s.odis; ounw = s.ounw; ofin =
    s.ofin; opay = s.opay; oto = s.oto; odl = s.odl; opdl = s.opdl; ocall =
    s.ocall; oalld = s.oalld; ob = s.ob; ocur = s.ocur; oev = s.oev; ojres =
    s.ojres; fi = s.fi; ostash = s.ostash; now = s.now; nexta = s.nexta;
    nexte = s.nexte; tops = s.tops; bots = s.bots; botd = s.botd; sent =
    s.sent; byield = s.byield; epush = s.epush; epop = s.epop; ernd = s.ernd;
    dpush = s.dpush; dpop = s.dpop; olast = s.olast; rer = s.rer; rerp =
    s.rerp; oleft = s.oleft }

(** val set_acur : st -> (nat -> nat) -> st **)

let set_acur s v =
  { evq = s.evq; cnt = s.cnt; towake = s.towake; sel = s.sel; total =
    s.total; ispan = s.ispan; pc = s.pc; cbit = s.cbit; inl = s.inl; kern =
    s.kern; ares = s.ares; jst = s.jst; aw = s.aw; acur = v; kpc = s.kpc;
    earm = s.earm; kw = s.kw; tok = s.tok; nextb = s.nextb; opc = s.opc;
    oco = s.oco; ocbit = s.ocbit; odis = s.odis; ounw = s.ounw; ofin =
    s.ofin; opay = s.opay; oto = s.oto; odl = s.odl; opdl = s.opdl; ocall =
    s.ocall; oalld = s.oalld; ob = s.ob; ocur = s.ocur; oev = s.oev; ojres =
    s.ojres; fi = s.fi; ostash = s.ostash; now = s.now; nexta = s.nexta;
    nexte = s.nexte; tops = s.tops; bots = s.bots; botd = s.botd; sent =
    s.sent; byield = s.byield; epush = s.epush; epop = s.epop; ernd = s.ernd;
    dpush = s.dpush; dpop = s.dpop; olast = s.olast; rer = s.rer; rerp =
    s.rerp; oleft = s.oleft }

(** val set_kpc : st -> (nat -> kpcT) -> st **)

let set_kpc s v =
  { evq = s.evq; cnt = s.cnt; towake = s.towake; sel = s.sel; total =
    s.total; ispan = s.ispan; pc = s.pc; cbit = s.cbit; inl = s.inl; kern =
    s.kern; ares = s.ares; jst = s.jst; aw = s.aw; acur = s.acur; kpc = v;
    earm = s.earm; kw = s.kw; tok = s.tok; nextb = s.nextb; opc = s.opc;
    oco = s.oco; ocbit = s.ocbit; odis = s.odis; ounw = s.ounw; ofin =
    s.ofin; opay = s.opay; oto = s.oto; odl = s.odl; opdl = s.opdl; ocall =
    s.ocall; oalld = s.oalld; ob = s.ob; ocur = s.ocur; oev = s.oev; ojres =
    s.ojres; fi = s.fi; ostash = s.ostash; now = s.now; nexta = s.nexta;
    nexte = s.nexte; tops = s.tops; bots = s.bots; botd = s.botd; sent =
    s.sent; byield = s.byield; epush = s.epush; epop = s.epop; ernd = s.ernd;
    dpush = s.dpush; dpop = s.dpop; olast = s.olast; rer = s.rer; rerp =
    s.rerp; oleft = s.oleft }

(** val set_earm : st -> (nat -> nat) -> st **)

let set_earm s v =
  { evq = s.evq; cnt = s.cnt; towake = s.towake; sel = s.sel; total =
    s.total; ispan = s.ispan; pc = s.pc; cbit = s.cbit; inl = s.inl; kern =
    s.kern; ares = s.ares; jst = s.jst; aw = s.aw; acur = s.acur; kpc =
    s.kpc; earm = v; kw = s.kw; tok = s.tok; nextb = s.nextb; opc = s.opc;
    oco = s.oco; ocbit = s.ocbit; odis = s.odis; ounw = s.ounw; ofin =
    s.ofin; opay = s.opay; oto = s.oto; odl = s.odl; opdl = s.opdl; ocall =
    s.ocall; oalld = s.oalld; ob = s.ob; ocur = s.ocur; oev = s.oev; ojres =
    s.ojres; fi = s.fi; ostash = s.ostash; now = s.now; nexta = s.nexta;
    nexte = s.nexte; tops = s.tops; bots = s.bots; botd = s.botd; sent =
    s.sent; byield = s.byield; epush = s.epush; epop = s.epop; ernd = s.ernd;
    dpush = s.dpush; dpop = s.dpop; olast = s.olast; rer = s.rer; rerp =
    s.rerp; oleft = s.oleft }

(** val set_kw : st -> (nat -> nat) -> st **)

let set_kw s v =
  { evq = s.evq; cnt = s.cnt; towake = s.towake; sel = s.sel; total =
    s.total; ispan = s.ispan; pc = s.pc; cbit = s.cbit; inl = s.inl; kern =
    s.kern; ares = s.ares; jst = s.jst; aw = s.aw; acur = s.acur; kpc =
    s.kpc; earm = s.earm; kw = v; tok = s.tok; nextb = s.nextb; opc = s.opc;
    oco = s.oco; ocbit = s.ocbit; odis = s.odis; ounw = s.ounw; ofin =
    s.ofin; opay = s.opay; oto = s.oto; odl = s.odl; opdl = s.opdl; ocall =
    s.ocall; oalld = s.oalld; ob = s.ob; ocur = s.ocur; oev = s.oev; ojres =
    s.ojres; fi = s.fi; ostash = s.ostash; now = s.now; nexta = s.nexta;
    nexte = s.nexte; tops = s.tops; bots = s.bots; botd = s.botd; sent =
    s.sent; byield = s.byield; epush = s.epush; epop = s.epop; ernd = s.ernd;
    dpush = s.dpush; dpop = s.dpop; olast = s.olast; rer = s.rer; rerp =
    s.rerp; oleft = s.oleft }

(** val set_tok : st -> (nat -> bool) -> st **)

let set_tok s v =
  { evq = s.evq; cnt = s.cnt; towake = s.towake; sel = s.sel; total =
    s.total; ispan = s.ispan; pc = s.pc; cbit = s.cbit; inl = s.inl; kern =
    s.kern; ares = s.ares; jst = s.jst; aw = s.aw; acur = s.acur; kpc =
    s.kpc; earm = s.earm; kw = s.kw; tok = v; nextb = s.nextb; opc = s.opc;
    oco = s.oco; ocbit = s.ocbit; odis = s.odis; ounw = s.ounw; ofin =
    s.ofin; opay = s.opay; oto = s.oto; odl = s.odl; opdl = s.opdl; ocall =
    s.ocall; oalld = s.oalld; ob = s.ob; ocur = s.ocur; oev = s.oev; ojres =
    s.ojres; fi = s.fi; ostash = s.ostash; now = s.now; nexta = s.nexta;
    nexte = s.nexte; tops = s.tops; bots = s.bots; botd = s.botd; sent =
    s.sent; byield = s.byield; epush = s.epush; epop = s.epop; ernd = s.ernd;
    dpush = s.dpush; dpop = s.dpop; olast = s.olast; rer = s.rer; rerp =
    s.rerp; oleft = s.oleft }

(** val set_nextb : st -> nat -> st **)

let set_nextb s v =
  { evq = s.evq; cnt = s.cnt; towake = s.towake; sel = s.sel; total =
    s.total; ispan = s.ispan; pc = s.pc; cbit = s.cbit; inl = s.inl; kern =
    s.kern; ares = s.ares; jst = s.jst; aw = s.aw; acur = s.acur; kpc =
    s.kpc; earm = s.earm; kw = s.kw; tok = s.tok; nextb = v; opc = s.opc;
    oco = s.oco; ocbit = s.ocbit; odis = s.odis; ounw = s.ounw; ofin =
    s.ofin; opay = s.opay; oto = s.oto; odl = s.odl; opdl = s.opdl; ocall =
    s.ocall; oalld = s.oalld; ob = s.ob; ocur = s.ocur; oev = s.oev; ojres =
    s.ojres; fi = s.fi; ostash = s.ostash; now = s.now; nexta = s.nexta;
    nexte = s.nexte; tops = s.tops; bots = s.bots; botd = s.botd; sent =
    s.sent; byield = s.byield; epush = s.epush; epop = s.epop; ernd = s.ernd;
    dpush = s.dpush; dpop = s.dpop; olast = s.olast; rer = s.rer; rerp =
    s.rerp; oleft = s.oleft }

(** val set_opc : st -> opcT -> st **)

let set_opc s v =
  { evq = s.evq; cnt = s.cnt; towake = s.towake; sel = s.sel; total =
    s.total; ispan = s.ispan; pc = s.pc; cbit = s.cbit; inl = s.inl; kern =
    s.kern; ares = s.ares; jst = s.jst; aw = s.aw; acur = s.acur; kpc =
    s.kpc; earm = s.earm; kw = s.kw; tok = s.tok; nextb = s.nextb; opc = v;
    oco = s.oco; ocbit = s.ocbit; odis = s.odis; ounw = s.ounw; ofin =
    s.ofin; opay = s.opay; oto = s.oto; odl = s.odl; opdl = s.opdl; ocall =
    s.ocall; oalld = s.oalld; ob = s.ob; ocur = s.ocur; oev = s.oev; ojres =
    s.ojres; fi = s.fi; ostash = s.ostash; now = s.now; nexta = s.nexta;
    nexte = s.nexte; tops = s.tops; bots = s.bots; botd = s.botd; sent =
    s.sent; byield = s.byield; epush = s.epush; epop = s.epop; ernd = s.ernd;
    dpush = s.dpush; dpop = s.dpop; olast = s.olast; rer = s.rer; rerp =
    s.rerp; oleft = s.oleft }

(** val set_oco : st -> bool -> st **)

let set_oco s v =
  { evq = s.evq; cnt = s.cnt; towake = s.towake; sel = s.sel; total =
    s.total; ispan = s.ispan; pc = s.pc; cbit = s.cbit; inl = s.inl; kern =
    s.kern; ares = s.ares; jst = s.jst; aw = s.aw; acur = s.acur; kpc =
    s.kpc; earm = s.earm; kw = s.kw; tok = s.tok; nextb = s.nextb; opc =
    s.opc; oco = v; ocbit = s.ocbit; odis = s.odis; ounw = s.ounw; ofin =
    s.ofin; opay = s.opay; oto = s.oto; odl = s.odl; opdl = s.opdl; ocall =
    s.ocall; oalld = s.oalld; ob = s.ob; ocur = s.ocur; oev = s.oev; ojres =
    s.ojres; fi = s.fi; ostash = s.ostash; now = s.now; nexta = s.nexta;
    nexte = s.nexte; tops = s.tops; bots = s.bots; botd = s.botd; sent =
    s.sent; byield = s.byield; epush = s.epush; epop = s.epop; ernd = s.ernd;
    dpush = s.dpush; dpop = s.dpop; olast = s.olast; rer = s.rer; rerp =
    s.rerp; oleft = s.oleft }

(** val set_ocbit : st -> bool -> st **)

let set_ocbit s v =
  { evq = s.evq; cnt = s.cnt; towake = s.towake; sel = s.sel; total =
    s.total; ispan = s.ispan; pc = s.pc; cbit = s.cbit; inl = s.inl; kern =
    s.kern; ares = s.ares; jst = s.jst; aw = s.aw; acur = s.acur; kpc =
    s.kpc; earm = s.earm; kw = s.kw; tok = s.tok; nextb = s.nextb; opc =
    s.opc; oco = s.oco; ocbit = v; odis = s.odis; ounw = s.ounw; ofin =
    s.ofin; opay = s.opay; oto = s.oto; odl = s.odl; opdl = s.opdl; ocall =
    s.ocall; oalld = s.oalld; ob = s.ob; ocur = s.ocur; oev = s.oev; ojres =
    s.ojres; fi = s.fi; ostash = s.ostash; now = s.now; nexta = s.nexta;
    nexte = s.nexte; tops = s.tops; bots = s.bots; botd = s.botd; sent =
    s.sent; byield = s.byield; epush = s.epush; epop = s.epop; ernd = s.ernd;
    dpush = s.dpush; dpop = s.dpop; olast = s.olast; rer = s.rer; rerp =
    s.rerp; oleft = s.oleft }

(** val set_odis : st -> nat -> st **)

let set_odis s v =
  { evq = s.evq; cnt = s.cnt; towake = s.towake; sel = s.sel; total =
    s.total; ispan = s.ispan; pc = s.pc; cbit = s.cbit; inl = s.inl; kern =
    s.kern; ares = s.ares; jst = s.jst; aw = s.aw; acur = s.acur; kpc =
    s.kpc; earm = s.earm; kw = s.kw; tok = s.tok; nextb = s.nextb; opc =
    s.opc; oco = s.oco; ocbit = s.ocbit; odis = v; ounw = s.ounw; ofin =
    s.ofin; opay = s.opay; oto = s.oto; odl = s.odl; opdl = s.opdl; ocall =
    s.ocall; oalld = s.oalld; ob = s.ob; ocur = s.ocur; oev = s.oev; ojres =
    s.ojres; fi = s.fi; ostash = s.ostash; now = s.now; nexta = s.nexta;
    nexte = s.nexte; tops = s.tops; bots = s.bots; botd = s.botd; sent =
    s.sent; byield = s.byield; epush = s.epush; epop = s.epop; ernd = s.ernd;
    dpush = s.dpush; dpop = s.dpop; olast = s.olast; rer = s.rer; rerp =
    s.rerp; oleft = s.oleft }

(** val set_ounw : st -> unw -> st **)

let set_ounw s v =
  { evq = s.evq; cnt = s.cnt; towake = s.towake; sel = s.sel; total =
    s.total; ispan = s.ispan; pc = s.pc; cbit = s.cbit; inl = s.inl; kern =
    s.kern; ares = s.ares; jst = s.jst; aw = s.aw; acur = s.acur; kpc =
    s.kpc; earm = s.earm; kw = s.kw; tok = s.tok; nextb = s.nextb; opc =
    s.opc; oco = s.oco; ocbit = s.ocbit; odis = s.odis; ounw = v; ofin =
    s.ofin; opay = s.opay; oto = s.oto; odl = s.odl; opdl = s.opdl; ocall =
    s.ocall; oalld = s.oalld; ob = s.ob; ocur = s.ocur; oev = s.oev; ojres =
    s.ojres; fi = s.fi; ostash = s.ostash; now = s.now; nexta = s.nexta;
    nexte = s.nexte; tops = s.tops; bots = s.bots; botd = s.botd; sent =
    s.sent; byield = s.byield; epush = s.epush; epop = s.epop; ernd = s.ernd;
    dpush = s.dpush; dpop = s.dpop; olast = s.olast; rer = s.rer; rerp =
    s.rerp; oleft = s.oleft }

(** val set_ofin : st -> nat -> st **)

let set_ofin s v =
  { evq = s.evq; cnt = s.cnt; towake = s.towake; sel = s.sel; total =
    s.total; ispan = s.ispan; pc = s.pc; cbit = s.cbit; inl = s.inl; kern =
    s.kern; ares = s.ares; jst = s.jst; aw = s.aw; acur = s.acur; kpc =
    s.kpc; earm = s.earm; kw = s.kw; tok = s.tok; nextb = s.nextb; opc =
    s.opc; oco = s.oco; ocbit = s.ocbit; odis = s.odis; ounw = s.ounw; ofin =
    v; opay = s.opay; oto = s.oto; odl = s.odl; opdl = s.opdl; ocall =
    s.ocall; oalld = s.oalld; ob = s.ob; ocur = s.ocur; oev = s.oev; ojres =
    s.ojres; fi = s.fi; ostash = s.ostash; now = s.now; nexta = s.nexta;
    nexte = s.nexte; tops = s.tops; bots = s.bots; botd = s.botd; sent =
    s.sent; byield = s.byield; epush = s.epush; epop = s.epop; ernd = s.ernd;
    dpush = s.dpush; dpop = s.dpop; olast = s.olast; rer = s.rer; rerp =
    s.rerp; oleft = s.oleft }

(** val set_opay : st -> unw -> st **)

let set_opay s v =
  { evq = s.evq; cnt = s.cnt; towake = s.towake; sel = s.sel; total =
    s.total; ispan = s.ispan; pc = s.pc; cbit = s.cbit; inl = s.inl; kern =
    s.kern; ares = s.ares; jst = s.jst; aw = s.aw; acur = s.acur; kpc =
    s.kpc; earm = s.earm; kw = s.kw; tok = s.tok; nextb = s.nextb; opc =
    s.opc; oco = s.oco; ocbit = s.ocbit; odis = s.odis; ounw = s.ounw; ofin =
    s.ofin; opay = v; oto = s.oto; odl = s.odl; opdl = s.opdl; ocall =
    s.ocall; oalld = s.oalld; ob = s.ob; ocur = s.ocur; oev = s.oev; ojres =
    s.ojres; fi = s.fi; ostash = s.ostash; now = s.now; nexta = s.nexta;
    nexte = s.nexte; tops = s.tops; bots = s.bots; botd = s.botd; sent =
    s.sent; byield = s.byield; epush = s.epush; epop = s.epop; ernd = s.ernd;
    dpush = s.dpush; dpop = s.dpop; olast = s.olast; rer = s.rer; rerp =
    s.rerp; oleft = s.oleft }

(** val set_oto : st -> z option -> st **)

let set_oto s v =
  { evq = s.evq; cnt = s.cnt; towake = s.towake; sel = s.sel; total =
    s.total; ispan = s.ispan; pc = s.pc; cbit = s.cbit; inl = s.inl; kern =
    s.kern; ares = s.ares; jst = s.jst; aw = s.aw; acur = s.acur; kpc =
    s.kpc; earm = s.earm; kw = s.kw; tok = s.tok; nextb = s.nextb; opc =
    s.opc; oco = s.oco; ocbit = s.ocbit; odis = s.odis; ounw = s.ounw; ofin =
    s.ofin; opay = s.opay; oto = v; odl = s.odl; opdl = s.opdl; ocall =
    s.ocall; oalld = s.oalld; ob = s.ob; ocur = s.ocur; oev = s.oev; ojres =
    s.ojres; fi = s.fi; ostash = s.ostash; now = s.now; nexta = s.nexta;
    nexte = s.nexte; tops = s.tops; bots = s.bots; botd = s.botd; sent =
    s.sent; byield = s.byield; epush = s.epush; epop = s.epop; ernd = s.ernd;
    dpush = s.dpush; dpop = s.dpop; olast = s.olast; rer = s.rer; rerp =
    s.rerp; oleft = s.oleft }

(** val set_odl : st -> z option -> st **)

let set_odl s v =
  { evq = s.evq; cnt = s.cnt; towake = s.towake; sel = s.sel; total =
    s.total; ispan = s.ispan; pc = s.pc; cbit = s.cbit; inl = s.inl; kern =
    s.kern; ares = s.ares; jst = s.jst; aw = s.aw; acur = s.acur; kpc =
    s.kpc; earm = s.earm; kw = s.kw; tok = s.tok; nextb = s.nextb; opc =
    s.opc; oco = s.oco; ocbit = s.ocbit; odis = s.odis; ounw = s.ounw; ofin =
    s.ofin; opay = s.opay; oto = s.oto; odl = v; opdl = s.opdl; ocall =
    s.ocall; oalld = s.oalld; ob = s.ob; ocur = s.ocur; oev = s.oev; ojres =
    s.ojres; fi = s.fi; ostash = s.ostash; now = s.now; nexta = s.nexta;
    nexte = s.nexte; tops = s.tops; bots = s.bots; botd = s.botd; sent =
    s.sent; byield = s.byield; epush = s.epush; epop = s.epop; ernd = s.ernd;
    dpush = s.dpush; dpop = s.dpop; olast = s.olast; rer = s.rer; rerp =
    s.rerp; oleft = s.oleft }

(** val set_opdl : st -> z option -> st **)

let set_opdl s v =
  { evq = s.evq; cnt = s.cnt; towake = s.towake; sel = s.sel; total =
    s.total; ispan = s.ispan; pc = s.pc; cbit = s.cbit; inl = s.inl; kern =
    s.kern; ares = s.ares; jst = s.jst; aw = s.aw; acur = s.acur; kpc =
    s.kpc; earm = s.earm; kw = s.kw; tok = s.tok; nextb = s.nextb; opc =
    s.opc; oco = s.oco; ocbit = s.ocbit; odis = s.odis; ounw = s.ounw; ofin =
    s.ofin; opay = s.opay; oto = s.oto; odl = s.odl; opdl = v; ocall =
    s.ocall; oalld = s.oalld; ob = s.ob; ocur = s.ocur; oev = s.oev; ojres =
    s.ojres; fi = s.fi; ostash = s.ostash; now = s.now; nexta = s.nexta;
    nexte = s.nexte; tops = s.tops; bots = s.bots; botd = s.botd; sent =
    s.sent; byield = s.byield; epush = s.epush; epop = s.epop; ernd = s.ernd;
    dpush = s.dpush; dpop = s.dpop; olast = s.olast; rer = s.rer; rerp =
    s.rerp; oleft = s.oleft }

(** val set_ocall : st -> z -> st **)

let set_ocall s v =
  { evq = s.evq; cnt = s.cnt; towake = s.towake; sel = s.sel; total =
    s.total; ispan = s.ispan; pc = s.pc; cbit = s.cbit; inl = s.inl; kern =
    s.kern; ares = s.ares; jst = s.jst; aw = s.aw; acur = s.acur; kpc =
    s.kpc; earm = s.earm; kw = s.kw; tok = s.tok; nextb = s.nextb; opc =
    s.opc; oco = s.oco; ocbit = s.ocbit; odis = s.odis; ounw = s.ounw; ofin =
    s.ofin; opay = s.opay; oto = s.oto; odl = s.odl; opdl = s.opdl; ocall =
    v; oalld = s.oalld; ob = s.ob; ocur = s.ocur; oev = s.oev; ojres =
    s.ojres; fi = s.fi; ostash = s.ostash; now = s.now; nexta = s.nexta;
    nexte = s.nexte; tops = s.tops; bots = s.bots; botd = s.botd; sent =
    s.sent; byield = s.byield; epush = s.epush; epop = s.epop; ernd = s.ernd;
    dpush = s.dpush; dpop = s.dpop; olast = s.olast; rer = s.rer; rerp =
    s.rerp; oleft = s.oleft }

(** val set_oalld : st -> bool -> st **)

let set_oalld s v =
  { evq = s.evq; cnt = s.cnt; towake = s.towake; sel = s.sel; total =
    s.total; ispan = s.ispan; pc = s.pc; cbit = s.cbit; inl = s.inl; kern =
    s.kern; ares = s.ares; jst = s.jst; aw = s.aw; acur = s.acur; kpc =
    s.kpc; earm = s.earm; kw = s.kw; tok = s.tok; nextb = s.nextb; opc =
    s.opc; oco = s.oco; ocbit = s.ocbit; odis = s.odis; ounw = s.ounw; ofin =
    s.ofin; opay = s.opay; oto = s.oto; odl = s.odl; opdl = s.opdl; ocall =
    s.ocall; oalld = v; ob = s.ob; ocur = s.ocur; oev = s.oev; ojres =
    s.ojres; fi = s.fi; ostash = s.ostash; now = s.now; nexta = s.nexta;
    nexte = s.nexte; tops = s.tops; bots = s.bots; botd = s.botd; sent =
    s.sent; byield = s.byield; epush = s.epush; epop = s.epop; ernd = s.ernd;
    dpush = s.dpush; dpop = s.dpop; olast = s.olast; rer = s.rer; rerp =
    s.rerp; oleft = s.oleft }

(** val set_ob : st -> nat -> st **)

let set_ob s v =
  { evq = s.evq; cnt = s.cnt; towake = s.towake; sel = s.sel; total =
    s.total; ispan = s.ispan; pc = s.pc; cbit = s.cbit; inl = s.inl; kern =
    s.kern; ares = s.ares; jst = s.jst; aw = s.aw; acur = s.acur; kpc =
    s.kpc; earm = s.earm; kw = s.kw; tok = s.tok; nextb = s.nextb; opc =
    s.opc; oco = s.oco; ocbit = s.ocbit; odis = s.odis; ounw = s.ounw; ofin =
    s.ofin; opay = s.opay; oto = s.oto; odl = s.odl; opdl = s.opdl; ocall =
    s.ocall; oalld = s.oalld; ob = v; ocur = s.ocur; oev = s.oev; ojres =
    s.ojres; fi = s.fi; ostash = s.ostash; now = s.now; nexta = s.nexta;
    nexte = s.nexte; tops = s.tops; bots = s.bots; botd = s.botd; sent =
    s.sent; byield = s.byield; epush = s.epush; epop = s.epop; ernd = s.ernd;
    dpush = s.dpush; dpop = s.dpop; olast = s.olast; rer = s.rer; rerp =
    s.rerp; oleft = s.oleft }

(** val set_ocur : st -> nat -> st **)

let set_ocur s v =
  { evq = s.evq; cnt = s.cnt; towake = s.towake; sel = s.sel; total =
    s.total; ispan = s.ispan; pc = s.pc; cbit = s.cbit; inl = s.inl; kern =
    s.kern; ares = s.ares; jst = s.jst; aw = s.aw; acur = s.acur; kpc =
    s.kpc; earm = s.earm; kw = s.kw; tok = s.tok; nextb = s.nextb; opc =
    s.opc; oco = s.oco; ocbit = s.ocbit; odis = s.odis; ounw = s.ounw; ofin =
    s.ofin; opay = s.opay; oto = s.oto; odl = s.odl; opdl = s.opdl; ocall =
    s.ocall; oalld = s.oalld; ob = s.ob; ocur = v; oev = s.oev; ojres =
    s.ojres; fi = s.fi; ostash = s.ostash; now = s.now; nexta = s.nexta;
    nexte = s.nexte; tops = s.tops; bots = s.bots; botd = s.botd; sent =
    s.sent; byield = s.byield; epush = s.epush; epop = s.epop; ernd = s.ernd;
    dpush = s.dpush; dpop = s.dpop; olast = s.olast; rer = s.rer; rerp =
    s.rerp; oleft = s.oleft }

(** val set_oev : st -> nat -> st **)

let set_oev s v =
  { evq = s.evq; cnt = s.cnt; towake = s.towake; sel = s.sel; total =
    s.total; ispan = s.ispan; pc = s.pc; cbit = s.cbit; inl = s.inl; kern =
    s.kern; ares = s.ares; jst = s.jst; aw = s.aw; acur = s.acur; kpc =
    s.kpc; earm = s.earm; kw = s.kw; tok = s.tok; nextb = s.nextb; opc =
    s.opc; oco = s.oco; ocbit = s.ocbit; odis = s.odis; ounw = s.ounw; ofin =
    s.ofin; opay = s.opay; oto = s.oto; odl = s.odl; opdl = s.opdl; ocall =
    s.ocall; oalld = s.oalld; ob = s.ob; ocur = s.ocur; oev = v; ojres =
    s.ojres; fi = s.fi; ostash = s.ostash; now = s.now; nexta = s.nexta;
    nexte = s.nexte; tops = s.tops; bots = s.bots; botd = s.botd; sent =
    s.sent; byield = s.byield; epush = s.epush; epop = s.epop; ernd = s.ernd;
    dpush = s.dpush; dpop = s.dpop; olast = s.olast; rer = s.rer; rerp =
    s.rerp; oleft = s.oleft }

(** val set_ojres : st -> aresult -> st **)

let set_ojres s v =
  { evq = s.evq; cnt = s.cnt; towake = s.towake; sel = s.sel; total =
    s.total; ispan = s.ispan; pc = s.pc; cbit = s.cbit; inl = s.inl; kern =
    s.kern; ares = s.ares; jst = s.jst; aw = s.aw; acur = s.acur; kpc =
    s.kpc; earm = s.earm; kw = s.kw; tok = s.tok; nextb = s.nextb; opc =
    s.opc; oco = s.oco; ocbit = s.ocbit; odis = s.odis; ounw = s.ounw; ofin =
    s.ofin; opay = s.opay; oto = s.oto; odl = s.odl; opdl = s.opdl; ocall =
    s.ocall; oalld = s.oalld; ob = s.ob; ocur = s.ocur; oev = s.oev; ojres =
    v; fi = s.fi; ostash = s.ostash; now = s.now; nexta = s.nexta; nexte =
    s.nexte; tops = s.tops; bots = s.bots; botd = s.botd; sent = s.sent;
    byield = s.byield; epush = s.epush; epop = s.epop; ernd = s.ernd; dpush =
    s.dpush; dpop = s.dpop; olast = s.olast; rer = s.rer; rerp = s.rerp;
    oleft = s.oleft }

(** val set_fi : st -> nat -> st **)

let set_fi s v =
  { evq = s.evq; cnt = s.cnt; towake = s.towake; sel = s.sel; total =
    s.total; ispan = s.ispan; pc = s.pc; cbit = s.cbit; inl = s.inl; kern =
    s.kern; ares = s.ares; jst = s.jst; aw = s.aw; acur = s.acur; kpc =
    s.kpc; earm = s.earm; kw = s.kw; tok = s.tok; nextb = s.nextb; opc =
    s.opc; oco = s.oco; ocbit = s.ocbit; odis = s.odis; ounw = s.ounw; ofin =
    s.ofin; opay = s.opay; oto = s.oto; odl = s.odl; opdl = s.opdl; ocall =
    s.ocall; oalld = s.oalld; ob = s.ob; ocur = s.ocur; oev = s.oev; ojres =
    s.ojres; fi = v; ostash = s.ostash; now = s.now; nexta = s.nexta; nexte =
    s.nexte; tops = s.tops; bots = s.bots; botd = s.botd; sent = s.sent;
    byield = s.byield; epush = s.epush; epop = s.epop; ernd = s.ernd; dpush =
    s.dpush; dpop = s.dpop; olast = s.olast; rer = s.rer; rerp = s.rerp;
    oleft = s.oleft }

(** val set_ostash : st -> qent -> st **)

let set_ostash s v =
  { evq = s.evq; cnt = s.cnt; towake = s.towake; sel = s.sel; total =
    s.total; ispan = s.ispan; pc = s.pc; cbit = s.cbit; inl = s.inl; kern =
    s.kern; ares = s.ares; jst = s.jst; aw = s.aw; acur = s.acur; kpc =
    s.kpc; earm = s.earm; kw = s.kw; tok = s.tok; nextb = s.nextb; opc =
    s.opc; oco = s.oco; ocbit = s.ocbit; odis = s.odis; ounw = s.ounw; ofin =
    s.ofin; opay = s.opay; oto = s.oto; odl = s.odl; opdl = s.opdl; ocall =
    s.ocall; oalld = s.oalld; ob = s.ob; ocur = s.ocur; oev = s.oev; ojres =
    s.ojres; fi = s.fi; ostash = v; now = s.now; nexta = s.nexta; nexte =
    s.nexte; tops = s.tops; bots = s.bots; botd = s.botd; sent = s.sent;
    byield = s.byield; epush = s.epush; epop = s.epop; ernd = s.ernd; dpush =
    s.dpush; dpop = s.dpop; olast = s.olast; rer = s.rer; rerp = s.rerp;
    oleft = s.oleft }

(** val set_now : st -> z -> st **)

let set_now s v =
  { evq = s.evq; cnt = s.cnt; towake = s.towake; sel = s.sel; total =
    s.total; ispan = s.ispan; pc = s.pc; cbit = s.cbit; inl = s.inl; kern =
    s.kern; ares = s.ares; jst = s.jst; aw = s.aw; acur = s.acur; kpc =
    s.kpc; earm = s.earm; kw = s.kw; tok = s.tok; nextb = s.nextb; opc =
    s.opc; oco = s.oco; ocbit = s.ocbit; odis = s.odis; ounw = s.ounw; ofin =
    s.ofin; opay = s.opay; oto = s.oto; odl = s.odl; opdl = s.opdl; ocall =
    s.ocall; oalld = s.oalld; ob = s.ob; ocur = s.ocur; oev = s.oev; ojres =
    s.ojres; fi = s.fi; ostash = s.ostash; now = v; nexta = s.nexta; nexte =
    s.nexte; tops = s.tops; bots = s.bots; botd = s.botd; sent = s.sent;
    byield = s.byield; epush = s.epush; epop = s.epop; ernd = s.ernd; dpush =
    s.dpush; dpop = s.dpop; olast = s.olast; rer = s.rer; rerp = s.rerp;
    oleft = s.oleft }

(** val set_nexta : st -> nat -> st **)

let set_nexta s v =
  { evq = s.evq; cnt = s.cnt; towake = s.towake; sel = s.sel; total =
    s.total; ispan = s.ispan; pc = s.pc; cbit = s.cbit; inl = s.inl; kern =
    s.kern; ares = s.ares; jst = s.jst; aw = s.aw; acur = s.acur; kpc =
    s.kpc; earm = s.earm; kw = s.kw; tok = s.tok; nextb = s.nextb; opc =
    s.opc; oco = s.oco; ocbit = s.ocbit; odis = s.odis; ounw = s.ounw; ofin =
    s.ofin; opay = s.opay; oto = s.oto; odl = s.odl; opdl = s.opdl; ocall =
    s.ocall; oalld = s.oalld; ob = s.ob; ocur = s.ocur; oev = s.oev; ojres =
    s.ojres; fi = s.fi; ostash = s.ostash; now = s.now; nexta = v; nexte =
    s.nexte; tops = s.tops; bots = s.bots; botd = s.botd; sent = s.sent;
    byield = s.byield; epush = s.epush; epop = s.epop; ernd = s.ernd; dpush =
    s.dpush; dpop = s.dpop; olast = s.olast; rer = s.rer; rerp = s.rerp;
    oleft = s.oleft }

(** val set_nexte : st -> nat -> st **)

let set_nexte s v =
  { evq = s.evq; cnt = s.cnt; towake = s.towake; sel = s.sel; total =
    s.total; ispan = s.ispan; pc = s.pc; cbit = s.cbit; inl = s.inl; kern =
    s.kern; ares = s.ares; jst = s.jst; aw = s.aw; acur = s.acur; kpc =
    s.kpc; earm = s.earm; kw = s.kw; tok = s.tok; nextb = s.nextb; opc =
    s.opc; oco = s.oco; ocbit = s.ocbit; odis = s.odis; ounw = s.ounw; ofin =
    s.ofin; opay = s.opay; oto = s.oto; odl = s.odl; opdl = s.opdl; ocall =
    s.ocall; oalld = s.oalld; ob = s.ob; ocur = s.ocur; oev = s.oev; ojres =
    s.ojres; fi = s.fi; ostash = s.ostash; now = s.now; nexta = s.nexta;
    nexte = v; tops = s.tops; bots = s.bots; botd = s.botd; sent = s.sent;
    byield = s.byield; epush = s.epush; epop = s.epop; ernd = s.ernd; dpush =
    s.dpush; dpop = s.dpop; olast = s.olast; rer = s.rer; rerp = s.rerp;
    oleft = s.oleft }

(** val set_tops : st -> (nat -> nat) -> st **)

let set_tops s v =
  { evq = s.evq; cnt = s.cnt; towake = s.towake; sel = s.sel; total =
    s.total; ispan = s.ispan; pc = s.pc; cbit = s.cbit; inl = s.inl; kern =
    s.kern; ares = s.ares; jst = s.jst; aw = s.aw; acur = s.acur; kpc =
    s.kpc; earm = s.earm; kw = s.kw; tok = s.tok; nextb = s.nextb; opc =
    s.opc; oco = s.oco; ocbit = s.ocbit; odis = s.odis; ounw = s.ounw; ofin =
    s.ofin; opay = s.opay; oto = s.oto; odl = s.odl; opdl = s.opdl; ocall =
    s.ocall; oalld = s.oalld; ob = s.ob; ocur = s.ocur; oev = s.oev; ojres =
    s.ojres; fi = s.fi; ostash = s.ostash; now = s.now; nexta = s.nexta;
    nexte = s.nexte; tops = v; bots = s.bots; botd = s.botd; sent = s.sent;
    byield = s.byield; epush = s.epush; epop = s.epop; ernd = s.ernd; dpush =
    s.dpush; dpop = s.dpop; olast = s.olast; rer = s.rer; rerp = s.rerp;
    oleft = s.oleft }

(** val set_bots : st -> (nat -> nat) -> st **)

let set_bots s v =
  { evq = s.evq; cnt = s.cnt; towake = s.towake; sel = s.sel; total =
    s.total; ispan = s.ispan; pc = s.pc; cbit = s.cbit; inl = s.inl; kern =
    s.kern; ares = s.ares; jst = s.jst; aw = s.aw; acur = s.acur; kpc =
    s.kpc; earm = s.earm; kw = s.kw; tok = s.tok; nextb = s.nextb; opc =
    s.opc; oco = s.oco; ocbit = s.ocbit; odis = s.odis; ounw = s.ounw; ofin =
    s.ofin; opay = s.opay; oto = s.oto; odl = s.odl; opdl = s.opdl; ocall =
    s.ocall; oalld = s.oalld; ob = s.ob; ocur = s.ocur; oev = s.oev; ojres =
    s.ojres; fi = s.fi; ostash = s.ostash; now = s.now; nexta = s.nexta;
    nexte = s.nexte; tops = s.tops; bots = v; botd = s.botd; sent = s.sent;
    byield = s.byield; epush = s.epush; epop = s.epop; ernd = s.ernd; dpush =
    s.dpush; dpop = s.dpop; olast = s.olast; rer = s.rer; rerp = s.rerp;
    oleft = s.oleft }

(** val set_botd : st -> (nat -> nat) -> st **)

let set_botd s v =
  { evq = s.evq; cnt = s.cnt; towake = s.towake; sel = s.sel; total =
    s.total; ispan = s.ispan; pc = s.pc; cbit = s.cbit; inl = s.inl; kern =
    s.kern; ares = s.ares; jst = s.jst; aw = s.aw; acur = s.acur; kpc =
    s.kpc; earm = s.earm; kw = s.kw; tok = s.tok; nextb = s.nextb; opc =
    s.opc; oco = s.oco; ocbit = s.ocbit; odis = s.odis; ounw = s.ounw; ofin =
    s.ofin; opay = s.opay; oto = s.oto; odl = s.odl; opdl = s.opdl; ocall =
    s.ocall; oalld = s.oalld; ob = s.ob; ocur = s.ocur; oev = s.oev; ojres =
    s.ojres; fi = s.fi; ostash = s.ostash; now = s.now; nexta = s.nexta;
    nexte = s.nexte; tops = s.tops; bots = s.bots; botd = v; sent = s.sent;
    byield = s.byield; epush = s.epush; epop = s.epop; ernd = s.ernd; dpush =
    s.dpush; dpop = s.dpop; olast = s.olast; rer = s.rer; rerp = s.rerp;
    oleft = s.oleft }

(** val set_sent : st -> (nat -> nat) -> st **)

let set_sent s v =
  { evq = s.evq; cnt = s.cnt; towake = s.towake; sel = s.sel; total =
    s.total; ispan = s.ispan; pc = s.pc; cbit = s.cbit; inl = s.inl; kern =
    s.kern; ares = s.ares; jst = s.jst; aw = s.aw; acur = s.acur; kpc =
    s.kpc; earm = s.earm; kw = s.kw; tok = s.tok; nextb = s.nextb; opc =
    s.opc; oco = s.oco; ocbit = s.ocbit; odis = s.odis; ounw = s.ounw; ofin =
    s.ofin; opay = s.opay; oto = s.oto; odl = s.odl; opdl = s.opdl; ocall =
    s.ocall; oalld = s.oalld; ob = s.ob; ocur = s.ocur; oev = s.oev; ojres =
    s.ojres; fi = s.fi; ostash = s.ostash; now = s.now; nexta = s.nexta;
    nexte = s.nexte; tops = s.tops; bots = s.bots; botd = s.botd; sent = v;
    byield = s.byield; epush = s.epush; epop = s.epop; ernd = s.ernd; dpush =
    s.dpush; dpop = s.dpop; olast = s.olast; rer = s.rer; rerp = s.rerp;
    oleft = s.oleft }

(** val set_byield : st -> (nat -> bool) -> st **)

let set_byield s v =
  { evq = s.evq; cnt = s.cnt; towake = s.towake; sel = s.sel; total =
    s.total; ispan = s.ispan; pc = s.pc; cbit = s.cbit; inl = s.inl; kern =
    s.kern; ares = s.ares; jst = s.jst; aw = s.aw; acur = s.acur; kpc =
    s.kpc; earm = s.earm; kw = s.kw; tok = s.tok; nextb = s.nextb; opc =
    s.opc; oco = s.oco; ocbit = s.ocbit; odis = s.odis; ounw = s.ounw; ofin =
    s.ofin; opay = s.opay; oto = s.oto; odl = s.odl; opdl = s.opdl; ocall =
    s.ocall; oalld = s.oalld; ob = s.ob; ocur = s.ocur; oev = s.oev; ojres =
    s.ojres; fi = s.fi; ostash = s.ostash; now = s.now; nexta = s.nexta;
    nexte = s.nexte; tops = s.tops; bots = s.bots; botd = s.botd; sent =
    s.sent; byield = v; epush = s.epush; epop = s.epop; ernd = s.ernd;
    dpush = s.dpush; dpop = s.dpop; olast = s.olast; rer = s.rer; rerp =
    s.rerp; oleft = s.oleft }

(** val set_epush : st -> (nat -> nat) -> st **)

let set_epush s v =
  { evq = s.evq; cnt = s.cnt; towake = s.towake; sel = s.sel; total =
    s.total; ispan = s.ispan; pc = s.pc; cbit = s.cbit; inl = s.inl; kern =
    s.kern; ares = s.ares; jst = s.jst; aw = s.aw; acur = s.acur; kpc =
    s.kpc; earm = s.earm; kw = s.kw; tok = s.tok; nextb = s.nextb; opc =
    s.opc; oco = s.oco; ocbit = s.ocbit; odis = s.odis; ounw = s.ounw; ofin =
    s.ofin; opay = s.opay; oto = s.oto; odl = s.odl; opdl = s.opdl; ocall =
    s.ocall; oalld = s.oalld; ob = s.ob; ocur = s.ocur; oev = s.oev; ojres =
    s.ojres; fi = s.fi; ostash = s.ostash; now = s.now; nexta = s.nexta;
    nexte = s.nexte; tops = s.tops; bots = s.bots; botd = s.botd; sent =
    s.sent; byield = s.byield; epush = v; epop = s.epop; ernd = s.ernd;
    dpush = s.dpush; dpop = s.dpop; olast = s.olast; rer = s.rer; rerp =
    s.rerp; oleft = s.oleft }

(** val set_epop : st -> (nat -> nat) -> st **)

let set_epop s v =
  { evq = s.evq; cnt = s.cnt; towake = s.towake; sel = s.sel; total =
    s.total; ispan = s.ispan; pc = s.pc; cbit = s.cbit; inl = s.inl; kern =
    s.kern; ares = s.ares; jst = s.jst; aw = s.aw; acur = s.acur; kpc =
    s.kpc; earm = s.earm; kw = s.kw; tok = s.tok; nextb = s.nextb; opc =
    s.opc; oco = s.oco; ocbit = s.ocbit; odis = s.odis; ounw = s.ounw; ofin =
    s.ofin; opay = s.opay; oto = s.oto; odl = s.odl; opdl = s.opdl; ocall =
    s.ocall; oalld = s.oalld; ob = s.ob; ocur = s.ocur; oev = s.oev; ojres =
    s.ojres; fi = s.fi; ostash = s.ostash; now = s.now; nexta = s.nexta;
    nexte = s.nexte; tops = s.tops; bots = s.bots; botd = s.botd; sent =
    s.sent; byield = s.byield; epush = s.epush; epop = v; ernd = s.ernd;
    dpush = s.dpush; dpop = s.dpop; olast = s.olast; rer = s.rer; rerp =
    s.rerp; oleft = s.oleft }

(** val set_ernd : st -> (nat -> nat) -> st **)

let set_ernd s v =
  { evq = s.evq; cnt = s.cnt; towake = s.towake; sel = s.sel; total =
    s.total; ispan = s.ispan; pc = s.pc; cbit = s.cbit; inl = s.inl; kern =
    s.kern; ares = s.ares; jst = s.jst; aw = s.aw; acur = s.acur; kpc =
    s.kpc; earm = s.earm; kw = s.kw; tok = s.tok; nextb = s.nextb; opc =
    s.opc; oco = s.oco; ocbit = s.ocbit; odis = s.odis; ounw = s.ounw; ofin =
    s.ofin; opay = s.opay; oto = s.oto; odl = s.odl; opdl = s.opdl; ocall =
    s.ocall; oalld = s.oalld; ob = s.ob; ocur = s.ocur; oev = s.oev; ojres =
    s.ojres; fi = s.fi; ostash = s.ostash; now = s.now; nexta = s.nexta;
    nexte = s.nexte; tops = s.tops; bots = s.bots; botd = s.botd; sent =
    s.sent; byield = s.byield; epush = s.epush; epop = s.epop; ernd = v;
    dpush = s.dpush; dpop = s.dpop; olast = s.olast; rer = s.rer; rerp =
    s.rerp; oleft = s.oleft }

(** val set_dpush : st -> (nat -> nat) -> st **)

let set_dpush s v =
  { evq = s.evq; cnt = s.cnt; towake = s.towake; sel = s.sel; total =
    s.total; ispan = s.ispan; pc = s.pc; cbit = s.cbit; inl = s.inl; kern =
    s.kern; ares = s.ares; jst = s.jst; aw = s.aw; acur = s.acur; kpc =
    s.kpc; earm = s.earm; kw = s.kw; tok = s.tok; nextb = s.nextb; opc =
    s.opc; oco = s.oco; ocbit = s.ocbit; odis = s.odis; ounw = s.ounw; ofin =
    s.ofin; opay = s.opay; oto = s.oto; odl = s.odl; opdl = s.opdl; ocall =
    s.ocall; oalld = s.oalld; ob = s.ob; ocur = s.ocur; oev = s.oev; ojres =
    s.ojres; fi = s.fi; ostash = s.ostash; now = s.now; nexta = s.nexta;
    nexte = s.nexte; tops = s.tops; bots = s.bots; botd = s.botd; sent =
    s.sent; byield = s.byield; epush = s.epush; epop = s.epop; ernd = s.ernd;
    dpush = v; dpop = s.dpop; olast = s.olast; rer = s.rer; rerp = s.rerp;
    oleft = s.oleft }

(** val set_dpop : st -> (nat -> nat) -> st **)

let set_dpop s v =
  { evq = s.evq; cnt = s.cnt; towake = s.towake; sel = s.sel; total =
    s.total; ispan = s.ispan; pc = s.pc; cbit = s.cbit; inl = s.inl; kern =
    s.kern; ares = s.ares; jst = s.jst; aw = s.aw; acur = s.acur; kpc =
    s.kpc; earm = s.earm; kw = s.kw; tok = s.tok; nextb = s.nextb; opc =
    s.opc; oco = s.oco; ocbit = s.ocbit; odis = s.odis; ounw = s.ounw; ofin =
    s.ofin; opay = s.opay; oto = s.oto; odl = s.odl; opdl = s.opdl; ocall =
    s.ocall; oalld = s.oalld; ob = s.ob; ocur = s.ocur; oev = s.oev; ojres =
    s.ojres; fi = s.fi; ostash = s.ostash; now = s.now; nexta = s.nexta;
    nexte = s.nexte; tops = s.tops; bots = s.bots; botd = s.botd; sent =
    s.sent; byield = s.byield; epush = s.epush; epop = s.epop; ernd = s.ernd;
    dpush = s.dpush; dpop = v; olast = s.olast; rer = s.rer; rerp = s.rerp;
    oleft = s.oleft }

(** val set_olast : st -> lastret -> st **)

let set_olast s v =
  { evq = s.evq; cnt = s.cnt; towake = s.towake; sel = s.sel; total =
    s.total; ispan = s.ispan; pc = s.pc; cbit = s.cbit; inl = s.inl; kern =
    s.kern; ares = s.ares; jst = s.jst; aw = s.aw; acur = s.acur; kpc =
    s.kpc; earm = s.earm; kw = s.kw; tok = s.tok; nextb = s.nextb; opc =
    s.opc; oco = s.oco; ocbit = s.ocbit; odis = s.odis; ounw = s.ounw; ofin =
    s.ofin; opay = s.opay; oto = s.oto; odl = s.odl; opdl = s.opdl; ocall =
    s.ocall; oalld = s.oalld; ob = s.ob; ocur = s.ocur; oev = s.oev; ojres =
    s.ojres; fi = s.fi; ostash = s.ostash; now = s.now; nexta = s.nexta;
    nexte = s.nexte; tops = s.tops; bots = s.bots; botd = s.botd; sent =
    s.sent; byield = s.byield; epush = s.epush; epop = s.epop; ernd = s.ernd;
    dpush = s.dpush; dpop = s.dpop; olast = v; rer = s.rer; rerp = s.rerp;
    oleft = s.oleft }

(** val set_rer : st -> nat -> st **)

let set_rer s v =
  { evq = s.evq; cnt = s.cnt; towake = s.towake; sel = s.sel; total =
    s.total; ispan = s.ispan; pc = s.pc; cbit = s.cbit; inl = s.inl; kern =
    s.kern; ares = s.ares; jst = s.jst; aw = s.aw; acur = s.acur; kpc =
    s.kpc; earm = s.earm; kw = s.kw; tok = s.tok; nextb = s.nextb; opc =
    s.opc; oco = s.oco; ocbit = s.ocbit; odis = s.odis; ounw = s.ounw; ofin =
    s.ofin; opay = s.opay; oto = s.oto; odl = s.odl; opdl = s.opdl; ocall =
    s.ocall; oalld = s.oalld; ob = s.ob; ocur = s.ocur; oev = s.oev; ojres =
    s.ojres; fi = s.fi; ostash = s.ostash; now = s.now; nexta = s.nexta;
    nexte = s.nexte; tops = s.tops; bots = s.bots; botd = s.botd; sent =
    s.sent; byield = s.byield; epush = s.epush; epop = s.epop; ernd = s.ernd;
    dpush = s.dpush; dpop = s.dpop; olast = s.olast; rer = v; rerp = s.rerp;
    oleft = s.oleft }

(** val set_rerp : st -> nat option -> st **)

let set_rerp s v =
  { evq = s.evq; cnt = s.cnt; towake = s.towake; sel = s.sel; total =
    s.total; ispan = s.ispan; pc = s.pc; cbit = s.cbit; inl = s.inl; kern =
    s.kern; ares = s.ares; jst = s.jst; aw = s.aw; acur = s.acur; kpc =
    s.kpc; earm = s.earm; kw = s.kw; tok = s.tok; nextb = s.nextb; opc =
    s.opc; oco = s.oco; ocbit = s.ocbit; odis = s.odis; ounw = s.ounw; ofin =
    s.ofin; opay = s.opay; oto = s.oto; odl = s.odl; opdl = s.opdl; ocall =
    s.ocall; oalld = s.oalld; ob = s.ob; ocur = s.ocur; oev = s.oev; ojres =
    s.ojres; fi = s.fi; ostash = s.ostash; now = s.now; nexta = s.nexta;
    nexte = s.nexte; tops = s.tops; bots = s.bots; botd = s.botd; sent =
    s.sent; byield = s.byield; epush = s.epush; epop = s.epop; ernd = s.ernd;
    dpush = s.dpush; dpop = s.dpop; olast = s.olast; rer = s.rer; rerp = v;
    oleft = s.oleft }

(** val set_oleft : st -> bool -> st **)

let set_oleft s v =
  { evq = s.evq; cnt = s.cnt; towake = s.towake; sel = s.sel; total =
    s.total; ispan = s.ispan; pc = s.pc; cbit = s.cbit; inl = s.inl; kern =
    s.kern; ares = s.ares; jst = s.jst; aw = s.aw; acur = s.acur; kpc =
    s.kpc; earm = s.earm; kw = s.kw; tok = s.tok; nextb = s.nextb; opc =
    s.opc; oco = s.oco; ocbit = s.ocbit; odis = s.odis; ounw = s.ounw; ofin =
    s.ofin; opay = s.opay; oto = s.oto; odl = s.odl; opdl = s.opdl; ocall =
    s.ocall; oalld = s.oalld; ob = s.ob; ocur = s.ocur; oev = s.oev; ojres =
    s.ojres; fi = s.fi; ostash = s.ostash; now = s.now; nexta = s.nexta;
    nexte = s.nexte; tops = s.tops; bots = s.bots; botd = s.botd; sent =
    s.sent; byield = s.byield; epush = s.epush; epop = s.epop; ernd = s.ernd;
    dpush = s.dpush; dpop = s.dpop; olast = s.olast; rer = s.rer; rerp =
    s.rerp; oleft = v }

(** val upd : (nat -> 'a1) -> nat -> 'a1 -> nat -> 'a1 **)

let upd f i v j =
  if Nat.eqb j i then v else f j

type action =
| Start of bool
| OAdd
| OPoll of z option
| ORemove of nat
| OClose
| OPanicA of nat
| OCancelled
| OCatch
| OStep
| CancelOwner
| Tick of z
| ASend of nat
| ANext of nat
| AFinish of nat
| APanic of nat * nat
| ACancelled of nat
| AYield of nat
| AStep of nat
| KStep of nat

(** val is_onone : opcT -> bool **)

let is_onone = function
| ONone -> true
| _ -> false

(** val cancel_due : st -> bool **)

let cancel_due s =
  (&&) ((&&) s.oco s.ocbit) (Nat.eqb s.odis O)

(** val zle_opt : z option -> z -> bool **)

let zle_opt d n =
  match d with
  | Some t -> Z.leb t n
  | None -> false

(** val zadd_opt : z -> z option -> z option **)

let zadd_opt n = function
| Some t -> Some (Z.add n t)
| None -> None

(** val to_ok : z option -> bool **)

let to_ok = function
| Some t -> Z.leb Z0 t
| None -> true

(** val first_unw : unw -> unw -> unw **)

let first_unw x y =
  match x with
  | UNone -> y
  | _ -> x

(** val user_pc : apc -> bool **)

let user_pc = function
| ATop -> true
| ABot -> true
| _ -> false

(** val is_abot : apc -> bool **)

let is_abot = function
| ABot -> true
| _ -> false

(** val wpc : st -> nat -> apc -> st **)

let wpc s a p =
  set_pc s (upd s.pc a p)

(** val wkpc : st -> nat -> kpcT -> st **)

let wkpc s e p =
  set_kpc s (upd s.kpc e p)

(** val raise_poll : st -> unw -> st **)

let raise_poll s u =
  if Nat.eqb s.ofin O
  then set_opc (set_olast (set_ounw s u) LRaised) OUnw
  else set_opc (set_opay s (first_unw s.opay u)) P1

(** val ret_ok : st -> st **)

let ret_ok s =
  if Nat.eqb s.ofin O
  then set_opc (set_olast s (LOk s.oev)) OBody
  else set_opc s P1

(** val ret_finished : st -> st **)

let ret_finished s =
  if Nat.eqb s.ofin O
  then set_opc (set_olast s LFinished) OBody
  else set_opc s (if s.oco then FE0 else FE1)

(** val ret_timeout : st -> st **)

let ret_timeout s =
  if Nat.eqb s.ofin O
  then set_opc (set_olast s LTimeout) OBody
  else set_opc s P1

(** val take_handle : st -> nat -> st **)

let take_handle s a =
  if s.sel a
  then set_opc (set_sel s (upd s.sel a false)) (if s.oco then C0 else CJ)
  else set_opc s OBug

(** val handle_ev : cfg -> st -> qent -> st **)

let handle_ev cf s = function
| ENormal e ->
  let a = s.earm e in
  let s0 = set_epop s (upd s.epop e (S (s.epop e))) in
  (match s0.pc a with
   | ASusp ->
     let s1 = set_bots s0 (upd s0.bots a (S (s0.bots a))) in
     let s2 = set_byield s1 (upd s1.byield a false) in
     let s3 = set_inl s2 (upd s2.inl a true) in
     let s4 = set_ocur s3 a in
     let s5 = set_oev s4 e in set_opc (wpc s5 a ABot) PRun
   | _ -> set_opc s0 OBug)
| EDone a ->
  let s0 = set_dpop s (upd s.dpop a (S (s.dpop a))) in
  let s1 = set_ocur s0 a in
  if cf.c_joinalways then take_handle s1 a else set_opc s1 Cpre

(** val start_drain : st -> st **)

let start_drain s =
  set_opc (set_odl (set_oto s None) None) P1

(** val arm_end : st -> nat -> aresult -> st **)

let arm_end s a r =
  let s0 =
    if is_abot (s.pc a) then set_botd s (upd s.botd a (S (s.botd a))) else s
  in
  wpc (set_ares s0 (upd s0.ares a r)) a AD0

(** val ostep : cfg -> st -> st option **)

let ostep cf s =
  match s.opc with
  | OA2 -> Some (set_opc (set_cnt s (Z.add s.cnt (Zpos XH))) OA3)
  | OA3 ->
    Some
      (set_opc (set_total (set_sel s (upd s.sel s.total true)) (S s.total))
        OBody)
  | P1 ->
    if cf.c_cntfirst
    then Some (set_opc (set_oalld s (Z.eqb s.cnt Z0)) P2)
    else Some (set_opc s P2)
  | P2 ->
    (match s.evq with
     | [] ->
       if cf.c_cntfirst
       then if s.oalld then Some (ret_finished s) else Some (set_opc s P3)
       else Some (set_opc s P2b)
     | ev :: r -> Some (handle_ev cf (set_evq s r) ev))
  | P2b ->
    if Z.eqb s.cnt Z0 then Some (ret_finished s) else Some (set_opc s P3)
  | P3 ->
    let b = s.nextb in
    Some (set_opc (set_towake (set_nextb (set_ob s b) (S b)) (Some b)) P4)
  | P4 ->
    (match s.evq with
     | [] -> Some (set_opc s P5)
     | ev :: r -> Some (set_opc (set_ostash (set_evq s r) ev) P4t))
  | P4t -> Some (handle_ev cf (set_towake s None) s.ostash)
  | P5 ->
    if s.tok s.ob
    then Some (set_opc (set_tok s (upd s.tok s.ob false)) P6)
    else if cancel_due s
         then Some (raise_poll s UCancel)
         else Some (set_opc (set_opdl s (zadd_opt s.now s.oto)) P5w)
  | P5w ->
    if (||) ((||) (s.tok s.ob) (zle_opt s.opdl s.now)) (cancel_due s)
    then let s0 = set_tok s (upd s.tok s.ob false) in
         if cancel_due s0
         then Some (raise_poll s0 UCancel)
         else Some (set_opc s0 P6)
    else None
  | P6 ->
    if zle_opt s.odl s.now then Some (ret_timeout s) else Some (set_opc s P1)
  | PRun -> if s.inl s.ocur then None else Some (ret_ok s)
  | Cpre ->
    if s.ispan then Some (set_opc s P1) else Some (take_handle s s.ocur)
  | C0 -> Some (set_opc (set_odis s (S s.odis)) CJ)
  | CJ ->
    if s.jst s.ocur
    then None
    else Some
           (set_opc (set_ojres s (s.ares s.ocur)) (if s.oco then C1 else C2))
  | C1 -> Some (set_opc (set_odis s (sub s.odis (S O))) C2)
  | C2 ->
    if (&&) cf.c_joinalways s.ispan
    then Some (set_opc s P1)
    else (match s.ojres with
          | RPanic _ -> Some (set_opc s C3)
          | _ -> Some (set_opc s P1))
  | C3 ->
    (match s.ojres with
     | RPanic p ->
       Some
         (raise_poll
           (set_rerp (set_rer (set_ispan s true) (S s.rer)) (Some p)) (UPanic
           p))
     | _ -> None)
  | OUnw ->
    Some (set_opc (set_opay (set_fi (set_ofin s (S (S O))) O) UNone) FC0)
  | FC0 ->
    if Nat.ltb s.fi s.total
    then if s.sel s.fi
         then if s.jst s.fi
              then Some (set_opc s FC1)
              else Some (set_fi s (S s.fi))
         else Some (set_fi s (S s.fi))
    else Some (if s.oco then set_opc s FD0 else start_drain s)
  | FC1 ->
    Some (set_opc (set_fi (set_cbit s (upd s.cbit s.fi true)) (S s.fi)) FC0)
  | FD0 -> Some (start_drain (set_odis s (S s.odis)))
  | FE0 -> Some (set_opc (set_odis s (sub s.odis (S O))) FE1)
  | FE1 ->
    (match s.ofin with
     | O -> Some (set_opc (set_oleft s true) OExit)
     | S n ->
       (match n with
        | O ->
          let s0 = set_ounw s (first_unw s.opay s.ounw) in
          Some
          (set_opc (set_opay (set_fi (set_ofin s0 (S (S O))) O) UNone) FC0)
        | S _ -> Some (set_opc (set_oleft s true) OExit)))
  | _ -> None

(** val astep : cfg -> st -> nat -> st option **)

let astep cf s a =
  match s.pc a with
  | AS0 -> if s.cbit a then Some (arm_end s a RCancel) else Some (wpc s a AS1)
  | AS1 ->
    if s.cbit a
    then if cf.c_sendraise
         then Some (arm_end s a RCancel)
         else Some (wpc (set_bots s (upd s.bots a (S (s.bots a)))) a ABot)
    else let e = s.nexte in
         let s0 = set_kpc s (upd s.kpc e K0) in
         let s1 = set_earm s0 (upd s0.earm e a) in
         let s2 = set_ernd s1 (upd s1.ernd e (s1.tops a)) in
         let s3 = set_nexte s2 (S e) in
         let s4 = set_sent s3 (upd s3.sent a (S (s3.sent a))) in
         let s5 = set_acur s4 (upd s4.acur a e) in
         let s6 = set_inl s5 (upd s5.inl a false) in Some (wpc s6 a ASusp)
  | AD0 ->
    if (&&) cf.c_kwait (negb (Nat.eqb (s.kern a) O))
    then Some (set_inl s (upd s.inl a false))
    else Some (wpc s a AD1)
  | AD1 ->
    Some
      (wpc
        (set_dpush (set_evq s (app s.evq ((EDone a) :: [])))
          (upd s.dpush a (S (s.dpush a)))) a AD2)
  | AD2 -> Some (wpc (set_cnt s (Z.sub s.cnt (Zpos XH))) a AD3)
  | AD3 ->
    (match s.towake with
     | Some b -> Some (wpc (set_aw (set_towake s None) (upd s.aw a b)) a AD4)
     | None -> Some (wpc s a AF1))
  | AD4 -> Some (wpc (set_tok s (upd s.tok (s.aw a) true)) a AF1)
  | AF1 ->
    Some
      (wpc (set_inl (set_jst s (upd s.jst a false)) (upd s.inl a false)) a
        ADone)
  | _ -> None

(** val kstep : st -> nat -> st option **)

let kstep s e =
  let a = s.earm e in
  (match s.kpc e with
   | K0 -> Some (wkpc (set_kern s (upd s.kern a (S (s.kern a)))) e K1)
   | K1 ->
     Some
       (wkpc
         (set_epush (set_evq s (app s.evq ((ENormal e) :: [])))
           (upd s.epush e (S (s.epush e)))) e K2)
   | K2 ->
     (match s.towake with
      | Some b -> Some (wkpc (set_kw (set_towake s None) (upd s.kw e b)) e K3)
      | None -> Some (wkpc s e K4))
   | K3 -> Some (wkpc (set_tok s (upd s.tok (s.kw e) true)) e K4)
   | K4 ->
     Some (wkpc (set_kern s (upd s.kern a (sub (s.kern a) (S O)))) e KDone)
   | _ -> None)

(** val step : cfg -> st -> action -> st option **)

let step cf s = function
| Start co ->
  (match s.opc with
   | ONone -> Some (set_opc (set_oco s co) OBody)
   | _ -> None)
| OAdd ->
  (match s.opc with
   | OBody ->
     let n = s.nexta in Some (set_opc (set_nexta (wpc s n ATop) (S n)) OA2)
   | _ -> None)
| OPoll to0 ->
  (match s.opc with
   | OBody ->
     if to_ok to0
     then Some
            (set_opc
              (set_odl (set_ocall (set_oto s to0) s.now) (zadd_opt s.now to0))
              P1)
     else None
   | _ -> None)
| ORemove a ->
  (match s.opc with
   | OBody ->
     if Nat.ltb a s.total then Some (set_cbit s (upd s.cbit a true)) else None
   | _ -> None)
| OClose ->
  (match s.opc with
   | OBody ->
     Some (set_opc (set_opay (set_fi (set_ofin s (S O)) O) UNone) FC0)
   | _ -> None)
| OPanicA p ->
  (match s.opc with
   | OBody -> Some (set_opc (set_ounw s (UPanic p)) OUnw)
   | _ -> None)
| OCancelled ->
  (match s.opc with
   | OBody ->
     if cancel_due s then Some (set_opc (set_ounw s UCancel) OUnw) else None
   | _ -> None)
| OCatch ->
  (match s.opc with
   | OUnw -> Some (set_opc (set_ounw s UNone) OBody)
   | _ -> None)
| OStep -> ostep cf s
| CancelOwner ->
  if (&&) s.oco (negb (is_onone s.opc)) then Some (set_ocbit s true) else None
| Tick t -> if Z.leb s.now t then Some (set_now s t) else None
| ASend a ->
  (match s.pc a with
   | ATop -> Some (wpc (set_tops s (upd s.tops a (S (s.tops a)))) a AS0)
   | _ -> None)
| ANext a ->
  (match s.pc a with
   | ABot -> Some (wpc (set_botd s (upd s.botd a (S (s.botd a)))) a ATop)
   | _ -> None)
| AFinish a -> if user_pc (s.pc a) then Some (arm_end s a ROk) else None
| APanic (a, p) ->
  if user_pc (s.pc a) then Some (arm_end s a (RPanic p)) else None
| ACancelled a ->
  if (&&) (user_pc (s.pc a)) (s.cbit a)
  then Some (arm_end s a RCancel)
  else None
| AYield a ->
  if (&&) (user_pc (s.pc a)) (s.inl a)
  then Some
         (set_byield (set_inl s (upd s.inl a false))
           (upd s.byield a ((||) (is_abot (s.pc a)) (s.byield a))))
  else None
| AStep a -> astep cf s a
| KStep e -> kstep s e

(** val init : st **)

let init =
  { evq = []; cnt = Z0; towake = None; sel = (fun _ -> false); total = O;
    ispan = false; pc = (fun _ -> ANone); cbit = (fun _ -> false); inl =
    (fun _ -> false); kern = (fun _ -> O); ares = (fun _ -> RRun); jst =
    (fun _ -> true); aw = (fun _ -> O); acur = (fun _ -> O); kpc = (fun _ ->
    KNone); earm = (fun _ -> O); kw = (fun _ -> O); tok = (fun _ -> false);
    nextb = O; opc = ONone; oco = false; ocbit = false; odis = O; ounw =
    UNone; ofin = O; opay = UNone; oto = None; odl = None; opdl = None;
    ocall = Z0; oalld = false; ob = O; ocur = O; oev = O; ojres = RRun; fi =
    O; ostash = (EDone O); now = Z0; nexta = O; nexte = O; tops = (fun _ ->
    O); bots = (fun _ -> O); botd = (fun _ -> O); sent = (fun _ -> O);
    byield = (fun _ -> false); epush = (fun _ -> O); epop = (fun _ -> O);
    ernd = (fun _ -> O); dpush = (fun _ -> O); dpop = (fun _ -> O); olast =
    LNone; rer = O; rerp = None; oleft = false }

(** val apc_n : apc -> z **)

let apc_n = function
| ANone -> Z0
| ATop -> Zpos XH
| AS0 -> Zpos (XO XH)
| AS1 -> Zpos (XI XH)
| ASusp -> Zpos (XO (XO XH))
| ABot -> Zpos (XI (XO XH))
| AD0 -> Zpos (XO (XI XH))
| AD1 -> Zpos (XI (XI XH))
| AD2 -> Zpos (XO (XO (XO XH)))
| AD3 -> Zpos (XI (XO (XO XH)))
| AD4 -> Zpos (XO (XI (XO XH)))
| AF1 -> Zpos (XI (XI (XO XH)))
| ADone -> Zpos (XO (XO (XI XH)))

(** val kpc_n : kpcT -> z **)

let kpc_n = function
| KNone -> Z0
| K0 -> Zpos XH
| K1 -> Zpos (XO XH)
| K2 -> Zpos (XI XH)
| K3 -> Zpos (XO (XO XH))
| K4 -> Zpos (XI (XO XH))
| KDone -> Zpos (XO (XI XH))

(** val opc_n : opcT -> z **)

let opc_n = function
| ONone -> Z0
| OBody -> Zpos XH
| OA2 -> Zpos (XO XH)
| OA3 -> Zpos (XI XH)
| P1 -> Zpos (XO (XO XH))
| P2 -> Zpos (XI (XO XH))
| P2b -> Zpos (XO (XI XH))
| P3 -> Zpos (XI (XI XH))
| P4 -> Zpos (XO (XO (XO XH)))
| P4t -> Zpos (XI (XO (XO XH)))
| P5 -> Zpos (XO (XI (XO XH)))
| P5w -> Zpos (XI (XI (XO XH)))
| P6 -> Zpos (XO (XO (XI XH)))
| PRun -> Zpos (XI (XO (XI XH)))
| Cpre -> Zpos (XO (XI (XI XH)))
| C0 -> Zpos (XI (XI (XI XH)))
| CJ -> Zpos (XO (XO (XO (XO XH))))
| C1 -> Zpos (XI (XO (XO (XO XH))))
| C2 -> Zpos (XO (XI (XO (XO XH))))
| C3 -> Zpos (XI (XI (XO (XO XH))))
| OUnw -> Zpos (XO (XO (XI (XO XH))))
| FC0 -> Zpos (XI (XO (XI (XO XH))))
| FC1 -> Zpos (XO (XI (XI (XO XH))))
| FD0 -> Zpos (XI (XI (XI (XO XH))))
| FE0 -> Zpos (XO (XO (XO (XI XH))))
| FE1 -> Zpos (XI (XO (XO (XI XH))))
| OExit -> Zpos (XO (XI (XO (XI XH))))
| OBug -> Zpos (XI (XI (XO (XI XH))))

(** val res_n : aresult -> z **)

let res_n = function
| RRun -> Z0
| ROk -> Zpos XH
| RPanic p -> Z.add (Zpos (XO (XI (XO XH)))) (Z.of_nat p)
| RCancel -> Zpos (XO XH)

(** val unw_n : unw -> z **)

let unw_n = function
| UNone -> Z0
| UPanic p -> Z.add (Zpos (XO (XI (XO XH)))) (Z.of_nat p)
| UCancel -> Zpos (XO XH)

(** val q_n : qent -> z **)

let q_n = function
| ENormal e -> Z.mul (Zpos (XO XH)) (Z.of_nat e)
| EDone a -> Z.add (Z.mul (Zpos (XO XH)) (Z.of_nat a)) (Zpos XH)

(** val oz : z option -> z **)

let oz = function
| Some z0 -> Z.add z0 (Zpos XH)
| None -> Z0

(** val on : nat option -> z **)

let on = function
| Some z0 -> Z.add (Z.of_nat z0) (Zpos XH)
| None -> Z0

(** val bz : bool -> z **)

let bz = function
| true -> Zpos XH
| false -> Z0

(** val last_n : lastret -> z **)

let last_n = function
| LNone -> Z0
| LOk e -> Z.add (Zpos (XO (XI (XO XH)))) (Z.of_nat e)
| LTimeout -> Zpos XH
| LFinished -> Zpos (XO XH)
| LRaised -> Zpos (XI XH)

(** val zn : nat -> z **)

let zn =
  Z.of_nat

(** val snap : st -> z list **)

let snap s =
  let a = seq O s.nexta in
  let e = seq O s.nexte in
  let b = seq O s.nextb in
  app ((Z.of_nat (length s.evq)) :: [])
    (app (map q_n s.evq)
      (app
        (s.cnt :: ((on s.towake) :: ((zn s.total) :: ((bz s.ispan) :: (
        (zn s.nextb) :: ((opc_n s.opc) :: ((bz s.oco) :: ((bz s.ocbit) :: (
        (zn s.odis) :: ((unw_n s.ounw) :: ((zn s.ofin) :: ((unw_n s.opay) :: (
        (oz s.oto) :: ((oz s.odl) :: ((oz s.opdl) :: (s.ocall :: ((bz s.oalld) :: (
        (zn s.ob) :: ((zn s.ocur) :: ((zn s.oev) :: ((res_n s.ojres) :: (
        (zn s.fi) :: ((q_n s.ostash) :: (s.now :: ((zn s.nexta) :: ((zn
                                                                    s.nexte) :: (
        (last_n s.olast) :: ((zn s.rer) :: ((on s.rerp) :: ((bz s.oleft) :: []))))))))))))))))))))))))))))))
        (app
          (flat_map (fun a0 ->
            (bz (s.sel a0)) :: ((apc_n (s.pc a0)) :: ((bz (s.cbit a0)) :: (
            (bz (s.inl a0)) :: ((zn (s.kern a0)) :: ((res_n (s.ares a0)) :: (
            (bz (s.jst a0)) :: ((zn (s.aw a0)) :: ((zn (s.acur a0)) :: (
            (zn (s.tops a0)) :: ((zn (s.bots a0)) :: ((zn (s.botd a0)) :: (
            (zn (s.sent a0)) :: ((bz (s.byield a0)) :: ((zn (s.dpush a0)) :: (
            (zn (s.dpop a0)) :: [])))))))))))))))) a)
          (app
            (flat_map (fun e0 ->
              (kpc_n (s.kpc e0)) :: ((zn (s.earm e0)) :: ((zn (s.kw e0)) :: (
              (zn (s.epush e0)) :: ((zn (s.epop e0)) :: ((zn (s.ernd e0)) :: []))))))
              e) (map (fun b0 -> bz (s.tok b0)) b)))))

(** val cands : nat -> nat -> nat -> z -> st -> action list **)

let cands mA mE mB mT s =
  let a = seq O s.nexta in
  let e = seq O s.nexte in
  app ((Start true) :: ((Start false) :: (OStep :: (OClose :: ((OPanicA (S (S
    (S (S (S (S (S (S (S
    O)))))))))) :: (OCancelled :: (OCatch :: (CancelOwner :: []))))))))
    (app (if Nat.ltb s.nexta mA then OAdd :: [] else [])
      (app
        (if Nat.ltb s.nextb mB
         then app ((OPoll None) :: [])
                (if Z.ltb (Z.add s.now (Zpos (XI (XO XH)))) mT
                 then (OPoll (Some (Zpos (XI (XO XH))))) :: []
                 else [])
         else [])
        (app
          (match s.odl with
           | Some d -> if Z.ltb s.now d then (Tick d) :: [] else []
           | None -> [])
          (app
            (match s.opdl with
             | Some d -> if Z.ltb s.now d then (Tick d) :: [] else []
             | None -> [])
            (app
              (flat_map (fun a0 ->
                app ((ORemove a0) :: ((ANext a0) :: ((AFinish a0) :: ((APanic
                  (a0, (S a0))) :: ((ACancelled a0) :: ((AYield
                  a0) :: ((AStep a0) :: [])))))))
                  (if Nat.ltb s.nexte mE then (ASend a0) :: [] else [])) a)
              (map (fun x -> KStep x) e))))))

(** val succs : cfg -> nat -> nat -> nat -> z -> st -> (action * st) list **)

let succs cf mA mE mB mT s =
  flat_map (fun ac ->
    match step cf s ac with
    | Some s' -> (ac, s') :: []
    | None -> []) (cands mA mE mB mT s)

(** val alla : st -> (nat -> bool) -> bool **)

let alla s f =
  forallb f (seq O s.nexta)

(** val alle : st -> (nat -> bool) -> bool **)

let alle s f =
  forallb f (seq O s.nexte)

(** val exa : st -> (nat -> bool) -> bool **)

let exa s f =
  existsb f (seq O s.nexta)

(** val exe : st -> (nat -> bool) -> bool **)

let exe s f =
  existsb f (seq O s.nexte)

(** val apc_eqb : apc -> apc -> bool **)

let apc_eqb x y =
  Z.eqb (apc_n x) (apc_n y)

(** val kpc_eqb : kpcT -> kpcT -> bool **)

let kpc_eqb x y =
  Z.eqb (kpc_n x) (kpc_n y)

(** val opc_eqb : opcT -> opcT -> bool **)

let opc_eqb x y =
  Z.eqb (opc_n x) (opc_n y)

(** val q_eqb : qent -> qent -> bool **)

let q_eqb x y =
  Z.eqb (q_n x) (q_n y)

(** val opc_in : opcT -> opcT list -> bool **)

let opc_in p l =
  existsb (opc_eqb p) l

(** val apc_in : apc -> apc list -> bool **)

let apc_in p l =
  existsb (apc_eqb p) l

(** val kpc_in : kpcT -> kpcT list -> bool **)

let kpc_in p l =
  existsb (kpc_eqb p) l

(** val inpoll : opcT -> bool **)

let inpoll p =
  opc_in p
    (P1 :: (P2 :: (P2b :: (P3 :: (P4 :: (P4t :: (P5 :: (P5w :: (P6 :: (PRun :: (Cpre :: (C0 :: (CJ :: (C1 :: (C2 :: (C3 :: []))))))))))))))))

(** val adding : opcT -> bool **)

let adding p =
  opc_in p (OA2 :: (OA3 :: []))

(** val cpcs : opcT -> bool **)

let cpcs p =
  opc_in p (C0 :: (CJ :: (C1 :: (C2 :: (C3 :: [])))))

(** val dset : apc list **)

let dset =
  AD2 :: (AD3 :: (AD4 :: (AF1 :: (ADone :: []))))

(** val endset : apc list **)

let endset =
  AD0 :: (AD1 :: (AD2 :: (AD3 :: (AD4 :: (AF1 :: (ADone :: []))))))

(** val inq : st -> qent -> bool **)

let inq s x =
  (||) (existsb (q_eqb x) s.evq) ((&&) (opc_eqb s.opc P4t) (q_eqb s.ostash x))

(** val qall : st -> qent list **)

let qall s =
  app (if opc_eqb s.opc P4t then s.ostash :: [] else []) s.evq

(** val nodupb : z list -> bool **)

let rec nodupb = function
| [] -> true
| x :: r -> (&&) (negb (existsb (Z.eqb x) r)) (nodupb r)

(** val cntif : (nat -> bool) -> nat -> nat **)

let cntif f n =
  length (filter f (seq O n))

(** val is_rpanic : aresult -> bool **)

let is_rpanic = function
| RPanic _ -> true
| _ -> false

(** val onat_eq : nat option -> nat -> bool **)

let onat_eq o n =
  match o with
  | Some m -> Nat.eqb m n
  | None -> false

(** val neb : nat -> nat -> bool **)

let neb =
  Nat.eqb

(** val checks : st -> bool list **)

let checks s =
  let o = s.opc in
  (if adding o then neb s.nexta (S s.total) else neb s.nexta s.total) :: (
  (alle s (fun e ->
    (&&) (Nat.leb (s.epop e) (s.epush e)) (Nat.leb (s.epush e) (S O)))) :: (
  (alle s (fun e ->
    (&&)
      ((&&) (negb (kpc_eqb (s.kpc e) KNone))
        (implb (kpc_in (s.kpc e) (K0 :: (K1 :: []))) (neb (s.epush e) O)))
      (implb (kpc_in (s.kpc e) (K2 :: (K3 :: (K4 :: (KDone :: [])))))
        (neb (s.epush e) (S O))))) :: ((alle s (fun e ->
                                         eqb (inq s (ENormal e))
                                           ((&&) (neb (s.epush e) (S O))
                                             (neb (s.epop e) O)))) :: (
  (alla s (fun a ->
    eqb (inq s (EDone a)) ((&&) (neb (s.dpush a) (S O)) (neb (s.dpop a) O)))) :: (
  ((&&) (nodupb (map q_n (qall s)))
    (forallb (fun x ->
      match x with
      | ENormal e -> Nat.ltb e s.nexte
      | EDone a -> Nat.ltb a s.nexta) (qall s))) :: ((alla s (fun a ->
                                                       (&&)
                                                         ((&&)
                                                           (eqb
                                                             (neb (s.dpush a)
                                                               (S O))
                                                             (apc_in 
                                                               (s.pc a) dset))
                                                           (Nat.leb
                                                             (s.dpush a) (S
                                                             O)))
                                                         (Nat.leb (s.dpop a)
                                                           (s.dpush a)))) :: (
  (alla s (fun a ->
    match s.pc a with
    | ANone -> false
    | ATop -> (&&) (neb (s.tops a) (s.sent a)) (neb (s.sent a) (s.bots a))
    | AS0 -> (&&) (neb (s.tops a) (S (s.sent a))) (neb (s.sent a) (s.bots a))
    | AS1 -> (&&) (neb (s.tops a) (S (s.sent a))) (neb (s.sent a) (s.bots a))
    | ASusp ->
      (&&) (neb (s.tops a) (s.sent a)) (neb (s.sent a) (S (s.bots a)))
    | ABot -> (&&) (neb (s.tops a) (s.sent a)) (neb (s.sent a) (s.bots a))
    | _ ->
      (&&) (neb (s.sent a) (s.bots a))
        ((||) (neb (s.tops a) (s.sent a)) (neb (s.tops a) (S (s.sent a)))))) :: (
  (alla s (fun a ->
    if apc_eqb (s.pc a) ABot
    then neb (S (s.botd a)) (s.bots a)
    else neb (s.botd a) (s.bots a))) :: ((alla s (fun a ->
                                           implb (apc_eqb (s.pc a) ASusp)
                                             ((&&)
                                               ((&&)
                                                 ((&&)
                                                   (Nat.ltb (s.acur a)
                                                     s.nexte)
                                                   (neb (s.earm (s.acur a)) a))
                                                 (neb (s.epop (s.acur a)) O))
                                               (neb (s.ernd (s.acur a))
                                                 (s.tops a))))) :: ((alle s
                                                                    (fun e ->
                                                                    let a =
                                                                    s.earm e
                                                                    in
                                                                    (&&)
                                                                    ((&&)
                                                                    ((&&)
                                                                    (Nat.ltb
                                                                    a s.nexta)
                                                                    (Nat.leb
                                                                    (S O)
                                                                    (s.ernd e)))
                                                                    (Nat.leb
                                                                    (s.ernd e)
                                                                    (s.tops a)))
                                                                    (if 
                                                                    neb
                                                                    (s.epop e)
                                                                    O
                                                                    then 
                                                                    (&&)
                                                                    (apc_eqb
                                                                    (s.pc a)
                                                                    ASusp)
                                                                    (neb
                                                                    (s.acur a)
                                                                    e)
                                                                    else 
                                                                    Nat.leb
                                                                    (s.ernd e)
                                                                    (s.bots a)))) :: (
  (alla s (fun a ->
    neb (s.kern a)
      (cntif (fun e ->
        (&&) (neb (s.earm e) a)
          (kpc_in (s.kpc e) (K1 :: (K2 :: (K3 :: (K4 :: [])))))) s.nexte))) :: (
  (alla s (fun a ->
    implb
      (apc_in (s.pc a)
        (AD1 :: (AD2 :: (AD3 :: (AD4 :: (AF1 :: (ADone :: [])))))))
      (neb (s.kern a) O))) :: ((alla s (fun a ->
                                 eqb (negb (s.jst a)) (apc_eqb (s.pc a) ADone))) :: (
  (Z.eqb s.cnt
    (Z.sub
      (Z.of_nat
        (cntif (fun a -> negb ((&&) (opc_eqb o OA2) (neb (S a) s.nexta)))
          s.nexta))
      (Z.of_nat
        (cntif (fun a ->
          apc_in (s.pc a) (AD3 :: (AD4 :: (AF1 :: (ADone :: []))))) s.nexta)))) :: (
  (alla s (fun a ->
    if (&&) (adding o) (neb (S a) s.nexta)
    then (&&) (negb (s.sel a)) (neb (s.dpop a) O)
    else eqb (s.sel a) (neb (s.dpop a) O))) :: ((alla s (fun a ->
                                                  implb
                                                    (neb (s.dpop a) (S O))
                                                    ((||) (negb (s.jst a))
                                                      ((&&)
                                                        (opc_in o
                                                          (C0 :: (CJ :: [])))
                                                        (neb s.ocur a))))) :: (
  ((&&)
    ((&&)
      (implb (cpcs o)
        ((&&) (Nat.ltb s.ocur s.nexta) (neb (s.dpop s.ocur) (S O))))
      (implb (opc_in o (C1 :: (C2 :: (C3 :: []))))
        ((&&) (negb (s.jst s.ocur))
          (Z.eqb (res_n s.ojres) (res_n (s.ares s.ocur))))))
    (implb (opc_eqb o C3) ((&&) (negb s.ispan) (is_rpanic s.ojres)))) :: (
  (neb s.odis
    (if s.oco
     then add (if opc_in o (CJ :: (C1 :: [])) then S O else O)
            (if (&&) (negb (neb s.ofin O)) ((||) (inpoll o) (opc_eqb o FE0))
             then S O
             else O)
     else O)) :: ((alla s (fun a ->
                    eqb (apc_in (s.pc a) endset)
                      (negb (Z.eqb (res_n (s.ares a)) Z0)))) :: (((&&)
                                                                   ((&&)
                                                                    ((&&)
                                                                    ((&&)
                                                                    (match s.towake with
                                                                    | Some b ->
                                                                    (&&)
                                                                    (neb b
                                                                    s.ob)
                                                                    (Nat.ltb
                                                                    b s.nextb)
                                                                    | None ->
                                                                    true)
                                                                    (alle s
                                                                    (fun e ->
                                                                    implb
                                                                    (kpc_eqb
                                                                    (s.kpc e)
                                                                    K3)
                                                                    (Nat.ltb
                                                                    (s.kw e)
                                                                    s.nextb))))
                                                                    (alla s
                                                                    (fun a ->
                                                                    implb
                                                                    (apc_eqb
                                                                    (s.pc a)
                                                                    AD4)
                                                                    (Nat.ltb
                                                                    (s.aw a)
                                                                    s.nextb))))
                                                                    (implb
                                                                    (opc_in o
                                                                    (P4 :: (P4t :: (P5 :: (P5w :: (P6 :: []))))))
                                                                    (Nat.ltb
                                                                    s.ob
                                                                    s.nextb)))
                                                                   (negb
                                                                    (s.tok
                                                                    s.nextb))) :: (
  (implb (opc_in o (P4 :: (P5 :: (P5w :: []))))
    ((||)
      ((||) ((||) (s.tok s.ob) (onat_eq s.towake s.ob))
        (exe s (fun e -> (&&) (kpc_eqb (s.kpc e) K3) (neb (s.kw e) s.ob))))
      (exa s (fun a -> (&&) (apc_eqb (s.pc a) AD4) (neb (s.aw a) s.ob))))) :: (
  (implb
    ((&&) ((&&) (opc_in o (P5 :: (P5w :: []))) (onat_eq s.towake s.ob))
      (negb (Nat.eqb (length s.evq) O)))
    ((||) (exe s (fun e -> kpc_eqb (s.kpc e) K2))
      (exa s (fun a -> apc_in (s.pc a) (AD2 :: (AD3 :: [])))))) :: ((implb
                                                                    ((||)
                                                                    (opc_in o
                                                                    (P3 :: (P4 :: (P5 :: (P5w :: [])))))
                                                                    ((&&)
                                                                    (opc_eqb
                                                                    o P2)
                                                                    (negb
                                                                    s.oalld)))
                                                                    ((||)
                                                                    (negb
                                                                    (Z.eqb
                                                                    s.cnt Z0))
                                                                    (negb
                                                                    (Nat.eqb
                                                                    (length
                                                                    s.evq) O)))) :: (
  (implb ((&&) (opc_eqb o P2) s.oalld)
    (alla s (fun a -> neb (s.dpush a) (S O)))) :: ((implb
                                                     (opc_in o
                                                       (FE0 :: (FE1 :: (OExit :: []))))
                                                     ((&&)
                                                       ((&&)
                                                         (alla s (fun a ->
                                                           (&&)
                                                             (negb (s.jst a))
                                                             (neb (s.dpop a)
                                                               (S O))))
                                                         (alle s (fun e ->
                                                           (&&)
                                                             (kpc_eqb
                                                               (s.kpc e)
                                                               KDone)
                                                             (neb (s.epop e)
                                                               (S O)))))
                                                       (Nat.eqb
                                                         (length s.evq) O))) :: (
  (eqb s.oleft (opc_eqb o OExit)) :: (((&&)
                                        (implb (opc_eqb o PRun)
                                          ((&&)
                                            ((&&)
                                              ((&&)
                                                ((&&)
                                                  ((&&)
                                                    (Nat.ltb s.ocur s.nexta)
                                                    (Nat.ltb s.oev s.nexte))
                                                  (neb (s.earm s.oev) s.ocur))
                                                (neb (s.epop s.oev) (S O)))
                                              (neb (s.bots s.ocur)
                                                (s.ernd s.oev)))
                                            (implb (negb (s.inl s.ocur))
                                              ((||)
                                                (neb (s.botd s.ocur)
                                                  (s.bots s.ocur))
                                                (s.byield s.ocur)))))
                                        (alla s (fun a ->
                                          implb (s.inl a)
                                            ((&&)
                                              ((&&) (opc_eqb o PRun)
                                                (neb s.ocur a))
                                              (negb
                                                (apc_in (s.pc a)
                                                  (ANone :: (ASusp :: (ADone :: []))))))))) :: (
  ((&&)
    ((&&) (neb s.rer (if s.ispan then S O else O))
      (eqb s.ispan (negb (Z.eqb (on s.rerp) Z0))))
    (match s.rerp with
     | Some p -> exa s (fun a -> Z.eqb (res_n (s.ares a)) (res_n (RPanic p)))
     | None -> true)) :: ((alla s (fun a ->
                            implb
                              ((&&)
                                ((&&) (neb (s.dpop a) (S O))
                                  (is_rpanic (s.ares a)))
                                (negb ((&&) (cpcs o) (neb s.ocur a)))) s.ispan)) :: (
  (negb (opc_eqb o OBug)) :: (((&&)
                                ((&&)
                                  ((&&)
                                    ((&&)
                                      ((&&) (Nat.leb s.ofin (S (S O)))
                                        (implb
                                          (opc_in o
                                            (FC0 :: (FC1 :: (FD0 :: (FE0 :: (FE1 :: []))))))
                                          (negb (neb s.ofin O))))
                                      (implb
                                        (opc_in o
                                          (ONone :: (OBody :: (OA2 :: (OA3 :: (OUnw :: []))))))
                                        (neb s.ofin O)))
                                    (implb (opc_eqb o OExit)
                                      (neb s.ofin (S (S O)))))
                                  (Nat.leb s.fi s.total))
                                (implb
                                  ((&&) (negb (neb s.ofin O)) (inpoll o))
                                  (Z.eqb (oz s.odl) Z0))) :: ((implb
                                                                ((&&)
                                                                  (inpoll o)
                                                                  (neb s.ofin
                                                                    O))
                                                                ((&&)
                                                                  (Z.eqb
                                                                    (oz s.odl)
                                                                    (oz
                                                                    (zadd_opt
                                                                    s.ocall
                                                                    s.oto)))
                                                                  (Z.leb
                                                                    s.ocall
                                                                    s.now))) :: (
  (implb
    ((&&)
      ((&&)
        ((&&) (alle s (fun e -> kpc_eqb (s.kpc e) KDone))
          (alla s (fun a ->
            apc_in (s.pc a) (ATop :: (ABot :: (ASusp :: (ADone :: [])))))))
        (opc_eqb o P5w))
      ((||) (negb (Nat.eqb (length s.evq) O)) (Z.eqb s.cnt Z0))) (s.tok s.ob)) :: (
  (alle s (fun e ->
    implb (apc_eqb (s.pc (s.earm e)) ADone) (kpc_eqb (s.kpc e) KDone))) :: []))))))))))))))))))))))))))))))))))

(** val first_bad : st -> nat option **)

let first_bad s =
  let rec go l i =
    match l with
    | [] -> None
    | b :: r -> if b then go r (S i) else Some i
  in go (checks s) O

(** val monitors : st -> bool list **)

let monitors s =
  (implb ((&&) ((&&) (opc_eqb s.opc P2) (Nat.eqb (length s.evq) O)) s.oalld)
    (alla s (fun a -> negb (s.jst a)))) :: ((implb s.oleft
                                              ((&&)
                                                (alla s (fun a ->
                                                  negb (s.jst a)))
                                                (alle s (fun e ->
                                                  kpc_eqb (s.kpc e) KDone)))) :: (
    (alla s (fun a -> Nat.leb (s.bots a) (s.sent a))) :: ((negb
                                                            (opc_eqb s.opc
                                                              OBug)) :: [])))

(** val first_bad_mon : st -> nat option **)

let first_bad_mon s =
  let rec go l i =
    match l with
    | [] -> None
    | b :: r -> if b then go r (S i) else Some i
  in go (monitors s) O

(** val cfg_of : nat -> cfg **)

let cfg_of = function
| O -> current
| S n0 ->
  (match n0 with
   | O ->
     { c_cntfirst = false; c_joinalways = true; c_kwait = true; c_sendraise =
       true }
   | S n1 ->
     (match n1 with
      | O ->
        { c_cntfirst = true; c_joinalways = false; c_kwait = true;
          c_sendraise = true }
      | S n2 ->
        (match n2 with
         | O ->
           { c_cntfirst = true; c_joinalways = true; c_kwait = false;
             c_sendraise = true }
         | S _ ->
           { c_cntfirst = true; c_joinalways = true; c_kwait = true;
             c_sendraise = false })))

(** val x_init : st **)

let x_init =
  init

(** val x_succs :
    cfg -> nat -> nat -> nat -> z -> st -> (action * st) list **)

let x_succs =
  succs

(** val x_snap : st -> z list **)

let x_snap =
  snap

(** val x_bad : st -> nat option **)

let x_bad =
  first_bad

(** val x_badmon : st -> nat option **)

let x_badmon =
  first_bad_mon

(** val x_cfg : nat -> cfg **)

let x_cfg =
  cfg_of
