(* BFS over the extracted CqueueModel step function; usage: explore <cfg#> <MA> <ME> <MB> <MT> <maxstates> [mon] *)
open Explore_model
let rec int_of_pos = function XH -> 1 | XO p -> 2 * int_of_pos p | XI p -> 2 * int_of_pos p + 1
let int_of_z = function Z0 -> 0 | Zpos p -> int_of_pos p | Zneg p -> - (int_of_pos p)
let rec nat_of_int n = if n <= 0 then O else S (nat_of_int (n-1))
let rec int_of_nat = function O -> 0 | S n -> 1 + int_of_nat n
let rec pos_of_int n = if n = 1 then XH else if n land 1 = 0 then XO (pos_of_int (n/2)) else XI (pos_of_int (n/2))
let z_of_int n = if n = 0 then Z0 else if n > 0 then Zpos (pos_of_int n) else Zneg (pos_of_int (-n))
let key s = String.concat "," (List.map (fun z -> string_of_int (int_of_z z)) (x_snap s))
let n = int_of_nat
let pa = function
  | Start b -> Printf.sprintf "Start %b" b | OAdd -> "OAdd" | OPoll None -> "OPoll None" | OPoll (Some z) -> Printf.sprintf "OPoll (Some %d)" (int_of_z z)
  | ORemove a -> Printf.sprintf "ORemove %d" (n a) | OClose -> "OClose" | OPanicA p -> Printf.sprintf "OPanicA %d" (n p) | OCancelled -> "OCancelled" | OCatch -> "OCatch"
  | OStep -> "OStep" | CancelOwner -> "CancelOwner" | Tick z -> Printf.sprintf "Tick %d" (int_of_z z)
  | ASend a -> Printf.sprintf "ASend %d" (n a) | ANext a -> Printf.sprintf "ANext %d" (n a) | AFinish a -> Printf.sprintf "AFinish %d" (n a)
  | APanic (a,p) -> Printf.sprintf "APanic %d %d" (n a) (n p) | ACancelled a -> Printf.sprintf "ACancelled %d" (n a) | AYield a -> Printf.sprintf "AYield %d" (n a)
  | AStep a -> Printf.sprintf "AStep %d" (n a) | KStep e -> Printf.sprintf "KStep %d" (n e)
let () =
  let a = Sys.argv in
  let cf = x_cfg (nat_of_int (int_of_string a.(1))) in
  let ma = nat_of_int (int_of_string a.(2)) and me = nat_of_int (int_of_string a.(3)) and mb = nat_of_int (int_of_string a.(4)) in
  let mt = z_of_int (int_of_string a.(5)) and maxs = int_of_string a.(6) in
  let mon = Array.length a > 7 in
  let bad = if mon then x_badmon else x_bad in
  let seen : (string, int) Hashtbl.t = Hashtbl.create 1000003 in
  (* parent pointers for the path *)
  let parent : (int, int * action) Hashtbl.t = Hashtbl.create 1000003 in
  let q = Queue.create () in
  let cnt = ref 0 in
  let add s par =
    let k = key s in
    if not (Hashtbl.mem seen k) then begin
      let id = !cnt in incr cnt;
      Hashtbl.add seen k id;
      (match par with Some p -> Hashtbl.add parent id p | None -> ());
      (match bad s with
       | Some i ->
           Printf.printf "VIOLATION of check %d at state %d\n" (n i) id;
           let rec path id acc = match Hashtbl.find_opt parent id with Some (p, ac) -> path p (pa ac :: acc) | None -> acc in
           Printf.printf "[%s]\n" (String.concat "; " (path id []));
           Printf.printf "snap: %s\n" k;
           exit 1
       | None -> ());
      Queue.add (id, s) q
    end in
  add x_init None;
  let quiesc = ref 0 in
  (try
    while not (Queue.is_empty q) do
      let (id, s) = Queue.pop q in
      let su = x_succs cf ma me mb mt s in
      if su = [] then incr quiesc;
      List.iter (fun (ac, s') -> add s' (Some (id, ac))) su;
      if !cnt > maxs then (Printf.printf "state limit reached: %d states\n" !cnt; raise Exit)
    done;
    Printf.printf "exhausted: %d states, %d terminal, all checks hold\n" !cnt !quiesc
  with Exit -> ())
