#!/usr/bin/env python3
# runs /verif/check with the proposed known findings merged in (known_findings.json itself is not touched)
import importlib.machinery, importlib.util, sys, json
loader = importlib.machinery.SourceFileLoader('chk','/verif/check'); spec = importlib.util.spec_from_loader('chk',loader)
m = importlib.util.module_from_spec(spec); loader.exec_module(m)
orig = m.known_findings
m.known_findings = lambda: orig() + json.load(open('/verif/notes/c16_known_findings_proposal.json'))
sys.argv = ['check'] + sys.argv[1:]
sys.exit(m.main())
