#!/usr/bin/env python3
"""prints the `st` record, its setters and the projection list for coq/Rt/CqueueModel.v (pasted between the markers)"""
F = [
 # the Cqueue object
 ("evq","list qent"),("cnt","Z"),("towake","option nat"),("sel","nat -> bool"),("total","nat"),("ispan","bool"),
 # select coroutines (arms)
 ("pc","nat -> apc"),("cbit","nat -> bool"),("inl","nat -> bool"),("kern","nat -> nat"),("ares","nat -> aresult"),
 ("jst","nat -> bool"),("aw","nat -> nat"),("acur","nat -> nat"),
 # kernel halves (one per event)
 ("kpc","nat -> kpcT"),("earm","nat -> nat"),("kw","nat -> nat"),
 # blockers
 ("tok","nat -> bool"),("nextb","nat"),
 # owner / poller
 ("opc","opcT"),("oco","bool"),("ocbit","bool"),("odis","nat"),("ounw","unw"),("ofin","nat"),("opay","unw"),
 ("oto","option Z"),("odl","option Z"),("opdl","option Z"),("ocall","Z"),("oalld","bool"),("ob","nat"),("ocur","nat"),("oev","nat"),
 ("ojres","aresult"),("fi","nat"),("ostash","qent"),("owk","bool"),
 # global
 ("now","Z"),("nexta","nat"),("nexte","nat"),
 # ghost
 ("tops","nat -> nat"),("bots","nat -> nat"),("botd","nat -> nat"),("sent","nat -> nat"),("byield","nat -> bool"),
 ("epush","nat -> nat"),("epop","nat -> nat"),("ernd","nat -> nat"),("dpush","nat -> nat"),("dpop","nat -> nat"),
 ("olast","lastret"),("rer","nat"),("rerp","option nat"),("oleft","bool")]
out=[]
out.append("Record st := mkst {\n  " + ";\n  ".join(f"{n} : {t}" for n,t in F) + " }.")
for n,t in F:
    body="; ".join((f"{m} := v" if m==n else f"{m} := {m} s") for m,_ in F)
    out.append(f"Definition set_{n} (s : st) (v : {t}) : st := {{| {body} |}}.")
print("\n".join(out))
print("(* PROJ: " + " ".join(n for n,_ in F) + " *)")
print("(* SETS: " + " ".join("set_"+n for n,_ in F) + " *)")
