
val negb : bool -> bool

val fst : ('a1 * 'a2) -> 'a1

val snd : ('a1 * 'a2) -> 'a2

val length : 'a1 list -> int

val app : 'a1 list -> 'a1 list -> 'a1 list

val add : int -> int -> int

val mul : int -> int -> int

val sub : int -> int -> int

val eqb : bool -> bool -> bool

module Nat :
 sig
  val sub : int -> int -> int

  val ltb : int -> int -> bool

  val min : int -> int -> int

  val divmod : int -> int -> int -> int -> int * int

  val modulo : int -> int -> int
 end

val nth_error : 'a1 list -> int -> 'a1 option

val removelast : 'a1 list -> 'a1 list

val rev : 'a1 list -> 'a1 list

val map : ('a1 -> 'a2) -> 'a1 list -> 'a2 list

val existsb : ('a1 -> bool) -> 'a1 list -> bool

val forallb : ('a1 -> bool) -> 'a1 list -> bool

val filter : ('a1 -> bool) -> 'a1 list -> 'a1 list

val seq : int -> int -> int list

type opk =
| KPush
| KLocal
| KPop
| KBulk
| KSteal
| KEmpty
| KOwn

type pcT =
| Idle
| Ext
| OW
| ON
| OB
| OC
| X0
| X1
| X2
| XC
| XS
| XT
| XR
| XN
| XH
| XH2
| XW
| XG
| XM
| LK
| LKr
| E0
| E1
| E2

type blk = { alive : bool; bstart : int; bno : int; used : int;
             next : int option; slots : (int -> int option) }

type ast = { pc : pcT; kd : opk; pvl : int; lb : int; li : int; lpi : 
             int; ltb0 : int; nid : int; ppi : int; pend : int;
             lnx : int option; lnew : int; res : int option list;
             retry : bool; rv : int option list; rb : bool;
             dq : int option list; glo : int; ghi : int }

type st = { hb : int; hi : int; hl : bool; tix : int; tbk : int;
            heap : (int -> blk); a : (int -> ast); pushed : int list;
            nblk : int; badr : (int -> int); born : (int -> bool);
            cl : (int -> int option); rd : (int -> bool); rl : (int -> bool);
            got : ((int * int) * int option) list; bad_uaf : bool;
            bad_under : bool; bad_null : bool }

val b_alive : blk -> bool -> blk

val b_used : blk -> int -> blk

val b_next : blk -> int option -> blk

val b_slots : blk -> (int -> int option) -> blk

val a_pc : ast -> pcT -> ast

val a_kd : ast -> opk -> ast

val a_pvl : ast -> int -> ast

val a_lb : ast -> int -> ast

val a_li : ast -> int -> ast

val a_lpi : ast -> int -> ast

val a_ltb : ast -> int -> ast

val a_nid : ast -> int -> ast

val a_ppi : ast -> int -> ast

val a_pend : ast -> int -> ast

val a_lnx : ast -> int option -> ast

val a_lnew : ast -> int -> ast

val a_res : ast -> int option list -> ast

val a_retry : ast -> bool -> ast

val a_rv : ast -> int option list -> ast

val a_rb : ast -> bool -> ast

val a_dq : ast -> int option list -> ast

val a_glo : ast -> int -> ast

val a_ghi : ast -> int -> ast

val s_hb : st -> int -> st

val s_hi : st -> int -> st

val s_hl : st -> bool -> st

val s_tix : st -> int -> st

val s_tbk : st -> int -> st

val s_heap : st -> (int -> blk) -> st

val s_A : st -> (int -> ast) -> st

val s_pushed : st -> int list -> st

val s_nblk : st -> int -> st

val s_badr : st -> (int -> int) -> st

val s_born : st -> (int -> bool) -> st

val s_cl : st -> (int -> int option) -> st

val s_rd : st -> (int -> bool) -> st

val s_rl : st -> (int -> bool) -> st

val s_got : st -> ((int * int) * int option) list -> st

val s_bad_uaf : st -> bool -> st

val s_bad_under : st -> bool -> st

val s_bad_null : st -> bool -> st

val upd : (int -> 'a1) -> int -> 'a1 -> int -> 'a1

val inr : int -> int -> int -> bool

val updr : (int -> 'a1) -> int -> int -> 'a1 -> int -> 'a1

type action =
| Call of int * opk * int
| Step of int * int
| Ret of int

val is_bulk : opk -> bool

val is_local : opk -> bool

val is_steal : opk -> bool

val is_own : opk -> bool

val call_ok : int -> opk -> bool

val entry : opk -> pcT

val emptyck : int -> ast -> bool

val newid : int -> ast -> int

val locked : int -> ast -> bool

val nexti : ast -> int

val setA : st -> int -> ast -> st

val deref : st -> int -> st

val fresh_blk : int -> int -> int -> blk

val after_loads : int -> st -> int -> ast -> st

val release : st -> int -> int -> st

val step : int -> bool -> st -> action -> st option

val ast0 : ast

val dead_blk : blk

val init : int -> st

val pc_eqb : pcT -> pcT -> bool

val kd_eqb : opk -> opk -> bool

val nodupb : int list -> bool

val oeqb : int option -> int option -> bool

val got_ok : st -> bool

val cntu : (int -> bool) -> int -> int -> int

val lockedB : int -> ast -> bool

val holds : int -> ast -> bool

val lockpc : int -> ast -> bool

val inpush : pcT -> bool

val impb : bool -> bool -> bool

val pcis : ast -> pcT -> bool

val kdis : ast -> opk -> bool

val aS : int -> int list

val bS : int -> int list

val iS : int -> int list

val hLb : st -> int

val claim_okb : int -> int -> st -> int -> ast -> bool

val lock_okb : st -> ast -> bool

val local_okb : st -> ast -> bool

val val_atb : st -> int -> int option

val leqb : int option list -> int option list -> bool

val ainvb : int -> int -> st -> int -> bool

val range : int -> int -> int -> bool

val clauses : int -> int -> int -> int -> st -> bool list

val firstbad : bool list -> int -> int

val invb : int -> int -> int -> int -> st -> int

val waits : int -> st -> bool
