(* design aid: exhaustive exploration of the extracted SpmcModel.step on a small instance, checking the
   boolean mirror of the invariant (InvTest.v) in every reachable state.
   usage: bfs B reuse(0/1) ownerprog stealerprog,stealerprog,... [NB]     p=push L=local_pop | s=pop b=bulk t=steal e=is_empty o=own pop *)
open Spmc_explore
let step0 = step
let bsz = int_of_string Sys.argv.(1)
let reuse = Sys.argv.(2) = "1"
let oprog = Sys.argv.(3)
let sprogs = Array.of_list (String.split_on_char ',' Sys.argv.(4))
let nb = if Array.length Sys.argv > 5 then int_of_string Sys.argv.(5) else 4
let na = 1 + Array.length sprogs
let ni = 2 * bsz * (1 + String.length oprog / bsz) + 2 * bsz
let progs = Array.append [| oprog |] sprogs
let kind c = match c with 'p' -> KPush | 'L' -> KLocal | 's' -> KPop | 'b' -> KBulk | 't' -> KSteal | 'e' -> KEmpty | 'o' -> KOwn | _ -> failwith "prog"
let range n = List.init n (fun i -> i)
let key (s, pos) = Digest.string (Marshal.to_string
  (s.hb, s.hi, s.hl, s.tix, s.tbk, s.nblk, s.pushed, s.got, (s.bad_uaf, s.bad_under, s.bad_null),
   List.map (fun b -> let k = s.heap b in (k.alive, k.bstart, k.bno, k.used, k.next, List.map k.slots (range bsz))) (range nb),
   List.map (fun a -> s.a a) (range na),
   (List.map s.badr (range (s.nblk + 1)), List.map s.born (range nb)),
   List.map (fun i -> (s.cl i, s.rd i, s.rl i)) (range ni), Array.to_list pos) [])
let tab n f = let arr = Array.init n f in fun i -> if i >= 0 && i < n then arr.(i) else f i
let norm s =
  let heap = tab nb (fun b -> let k = s.heap b in { k with slots = tab bsz k.slots }) in
  { s with heap = heap; a = tab na s.a; badr = tab (s.nblk + 2) s.badr; born = tab nb s.born;
           cl = tab ni s.cl; rd = tab ni s.rd; rl = tab ni s.rl }
let step b r s a = match step0 b r s a with Some s' -> Some (if s' == s then s else norm s') | None -> None
let show_act = function
  | Call (a, k, v) -> Printf.sprintf "Call %d %s %d" a (match k with KPush -> "KPush" | KLocal -> "KLocal" | KPop -> "KPop" | KBulk -> "KBulk" | KSteal -> "KSteal" | KEmpty -> "KEmpty" | KOwn -> "KOwn") v
  | Step (a, x) -> Printf.sprintf "Step %d %d" a x
  | Ret a -> Printf.sprintf "Ret %d" a
let () =
  let seen = Hashtbl.create 1000003 in
  let parent = Hashtbl.create 1000003 in
  let q = Queue.create () in
  let s0 = (init bsz, Array.make na 0) in
  Hashtbl.add seen (key s0) 0; Queue.add (s0, 0) q;
  let n = ref 1 and stuck = ref None and waiting = ref None and finals = ref 0 in
  let path id =
    let rec go id acc = if id = 0 then acc else let (p, a) = Hashtbl.find parent id in go p (a :: acc) in
    String.concat "; " (List.map show_act (go id [])) in
  (try
    while not (Queue.is_empty q) do
      let ((s, pos), id) = Queue.pop q in
      let bad = invb bsz na nb ni s in
      if bad <> 0 then begin
        Printf.printf "INVARIANT clause %d fails after %d states\n  schedule: [%s]\n" bad !n (path id); raise Exit end;
      if !waiting = None && waits na s then waiting := Some id;
      let succ = ref [] in
      for a = 0 to na - 1 do
        let me = s.a a in
        (match me.pc with
         | Idle ->
             if pos.(a) < String.length progs.(a) then begin
               let k = kind progs.(a).[pos.(a)] in
               let v = s.tix + 1 in
               match step bsz reuse s (Call (a, k, (if k = KPush then List.length s.pushed + 1 else 0))) with
               | Some s' -> let pos' = Array.copy pos in pos'.(a) <- pos.(a) + 1; ignore v;
                   succ := (Call (a, k, (if k = KPush then List.length s.pushed + 1 else 0)), (s', pos')) :: !succ
               | None -> () end
         | Ext -> (match step bsz reuse s (Ret a) with Some s' -> succ := (Ret a, (s', pos)) :: !succ | None -> ())
         | ON -> List.iter (fun x -> match step bsz reuse s (Step (a, x)) with Some s' -> succ := (Step (a, x), (s', pos)) :: !succ | None -> ()) (range nb)
         | _ -> (match step bsz reuse s (Step (a, 0)) with Some s' -> succ := (Step (a, 0), (s', pos)) :: !succ | None -> ()))
      done;
      let real = List.filter (fun (_, (s', _)) -> s' != s) !succ in
      if real = [] then begin
        incr finals;
        let busy = List.exists (fun a -> (s.a a).pc <> Idle) (range na) in
        if busy && !stuck = None then stuck := Some id end;
      List.iter (fun (act, st') ->
        let k = key st' in
        if not (Hashtbl.mem seen k) then begin
          Hashtbl.add seen k !n; Hashtbl.add parent !n (id, act); Queue.add (st', !n) q; incr n end) !succ
    done;
    Printf.printf "B=%d reuse=%b owner=%s stealers=%s: %d states, %d final; invariant and statements hold everywhere\n" bsz reuse oprog Sys.argv.(4) !n !finals
  with Exit -> ());
  (match !waiting with Some id -> Printf.printf "  a claimer waits for slots beyond the tail: [%s]\n" (path id) | None -> Printf.printf "  no claimer ever waits\n");
  (match !stuck with Some id -> Printf.printf "  final state with a busy actor (claimer waiting for a push that never comes): [%s]\n" (path id) | None -> ())
