#!/bin/sh
# design aid: the instances explored while the invariant was being designed
cd "$(dirname "$0")"
for cfg in "2 1 ppLLppLLp b,s 3" "2 1 pppLpLp t,s 3" "2 1 ppLLppLL b,b 3" "2 0 pppLpp b,s,s 4" "2 1 pLpLpLpp t,b 3" "3 1 pppLpLLpp b,s 3" "2 1 ppLLppLLpL s,s 3" "1 1 pLpLp b,s 3" "2 1 ppLpLppL b,e 3" "2 1 pppp t,t 3"; do
  timeout 3000 ./bfs $cfg 2>&1 | cut -c1-400
done
