(* design aid (not part of any check): boolean mirror of SpmcInv.Inv with bounded quantifiers, extracted
   together with the model's step function and explored exhaustively on small instances (bfs.ml) *)
From Coq Require Import List Arith Bool Extraction ExtrOcamlBasic ExtrOcamlNatInt.
Import ListNotations.
Require Import MayV.Queue.SpmcModel MayV.Queue.SpmcAccept MayV.Queue.SpmcInv.

Definition impb (a b : bool) := negb a || b.
Definition pcis (x : ast) (p : pcT) := pc_eqb (pc x) p.
Definition kdis (x : ast) (k : opk) := kd_eqb (kd x) k.

Section T.
Variables B NA NB NI : nat.
Definition AS := seq 0 NA.
Definition BS := seq 0 NB.
Definition IS := seq 0 NI.

Definition HLb (s : st) := bstart (heap s (hb s)) + hi s.
Definition claim_okb (s : st) (a : nat) (x : ast) : bool :=
  Nat.ltb (glo x) (ghi x) && alive (heap s (lb x)) &&
  Nat.eqb (glo x) (bstart (heap s (lb x)) + li x) && Nat.leb (ghi x) (bstart (heap s (lb x)) + B) &&
  forallb (fun i => impb (inr (glo x) (ghi x) i)
                     (oeqb (cl s i) (Some a) && negb (rl s i) && Bool.eqb (rd s i) (pcis x XM))) IS.
Definition lock_okb (s : st) (x : ast) : bool := hl s && Nat.eqb (hb s) (lb x) && Nat.eqb (hi s) (li x).
Definition local_okb (s : st) (x : ast) : bool := impb (kdis x KLocal) (Nat.eqb (lpi x) (tix s) && Nat.eqb (ltb x) (tbk s)).
Definition val_atb (s : st) (i : nat) := nth_error (pushed s) i.
Fixpoint leqb (l1 l2 : list (option nat)) : bool :=
  match l1, l2 with [], [] => true | a :: r, b :: r' => oeqb a b && leqb r r' | _, _ => false end.

Definition ainvb (s : st) (a : nat) : bool :=
  let x := A s a in
  let bs := bstart (heap s (lb x)) in
  Nat.ltb (li x) B &&
  impb (kdis x KLocal || kdis x KPush) (Nat.eqb a 0) &&
  impb (inpush (pc x)) (kdis x KPush) &&
  match pc x with
  | Idle | Ext | OW | ON | OB | OC | X0 | E0 | E1 | E2 => true
  | X1 | X2 => negb (kdis x KLocal)
  | XC => negb (emptyck B x) && Nat.eqb (nid x) (newid B x) && local_okb s x
  | XS => Nat.ltb (nid x) B && local_okb s x &&
          if locked B x then lock_okb s x && impb (kdis x KLocal) (Nat.leb (S (bs + li x)) (tix s))
          else claim_okb s a x && Nat.eqb (ghi x) (bs + nexti x) && impb (kdis x KLocal) (Nat.leb (ghi x) (tix s))
  | XT => lock_okb s x && negb (kdis x KLocal) && Nat.eqb (ppi x) (bs + li x) && locked B x
  | XR => lock_okb s x && negb (kdis x KLocal)
  | XN => lock_okb s x && Nat.eqb (ppi x) (bs + li x) && Nat.eqb (pend x) (bs + B) && Nat.leb (pend x) (tix s)
  | XH => lock_okb s x && Nat.eqb (ppi x) (bs + li x) && Nat.eqb (pend x) (bs + B) && Nat.leb (pend x) (tix s) &&
          oeqb (lnx x) (Some (badr s (S (bno (heap s (lb x)))))) && Nat.ltb (S (bno (heap s (lb x)))) (nblk s)
  | XH2 => lock_okb s x && Nat.eqb (ppi x) (bs + li x) && Nat.ltb (ppi x) (pend x) && Nat.ltb (pend x) (bs + B) && Nat.leb (pend x) (tix s)
  | XW => claim_okb s a x && Nat.eqb (ppi x) (glo x) && Nat.eqb (pend x) (ghi x)
  | XG => claim_okb s a x && Nat.eqb (ppi x) (glo x) && Nat.eqb (pend x) (ghi x) && Nat.leb (pend x) (tix s)
  | XM => claim_okb s a x && Nat.eqb (ppi x) (glo x) && Nat.eqb (pend x) (ghi x) && Nat.leb (pend x) (tix s) &&
          leqb (res x) (map (val_atb s) (seq (glo x) (ghi x - glo x)))
  | LK | LKr => false
  end.

Definition range (lo hi v : nat) := Nat.leb lo v && Nat.ltb v hi.

Definition clauses (s : st) : list bool :=
  let p := pc (A s 0) in
  let lenp := length (pushed s) in
  [ (* 1 IHd *) Nat.ltb (hi s) B && alive (heap s (hb s));
    (* 2 ITl *) Nat.leb 1 (nblk s) &&
        (if pc_eqb p OB then Nat.leb 2 (nblk s) && Nat.eqb (tbk s) (badr s (nblk s - 2)) && Nat.eqb (lnew (A s 0)) (badr s (nblk s - 1))
         else Nat.eqb (tbk s) (badr s (nblk s - 1))) &&
        alive (heap s (tbk s)) &&
        match p with
        | ON => Nat.eqb lenp (S (tix s)) && Nat.eqb (S (tix s)) (nblk s * B)
        | OB => Nat.eqb lenp (S (tix s)) && Nat.eqb (S (tix s)) ((nblk s - 1) * B)
        | OC => Nat.eqb lenp (S (tix s)) && range ((nblk s - 1) * B) (nblk s * B) (S (tix s))
        | _ => Nat.eqb lenp (tix s) && range ((nblk s - 1) * B) (nblk s * B) (tix s)
        end;
    (* 3 IBk *) forallb (fun b => impb (alive (heap s b))
        (let k := bno (heap s b) in
         Nat.ltb k (nblk s) && Nat.eqb (badr s k) b && Nat.eqb (bstart (heap s b)) (k * B) && Nat.ltb 0 (used (heap s b)) &&
         Nat.eqb (used (heap s b)) (cntu (rl s) (k * B) B) &&
         impb (Nat.ltb (S k) (nblk s)) (oeqb (next (heap s b)) (Some (badr s (S k)))) &&
         forallb (fun j => impb (Nat.ltb (k * B + j) lenp) (oeqb (slots (heap s b) j) (val_atb s (k * B + j)))) (seq 0 B))) BS;
    (* 4 ILv *) forallb (fun k => forallb (fun i => impb (range (k * B) (k * B + B) i && negb (rl s i))
                       (alive (heap s (badr s k)) && Nat.eqb (bno (heap s (badr s k))) k)) IS) (seq 0 (nblk s));
    (* 5 ICl *) forallb (fun i => Bool.eqb (match cl s i with Some _ => true | None => false end) (Nat.ltb i (HLb s))) IS;
    (* 6 IRd *) forallb (fun i => impb (rl s i) (rd s i) && impb (rd s i) (match cl s i with Some _ => true | None => false end)) IS;
    (* 7 IPd *) forallb (fun i => match cl s i with
                                 | Some a => impb (negb (rl s i)) (holds B (A s a) && range (glo (A s a)) (ghi (A s a)) i)
                                 | None => true end) IS;
    (* 8 IGt *) forallb (fun g => let '(a, i, v) := g in rd s i && oeqb (cl s i) (Some a) && oeqb v (val_atb s i) && Nat.ltb i (tix s)) (got s);
    (* 9 IGn *) nodupb (map (fun g => snd (fst g)) (got s));
    (* 10 IGr *) forallb (fun i => impb (rd s i) (existsb (Nat.eqb i) (map (fun g => snd (fst g)) (got s)))) IS;
    (* 11 ILu *) forallb (fun a => forallb (fun a' => impb (lockpc B (A s a) && lockpc B (A s a')) (Nat.eqb a a')) AS) AS;
    (* 12 IAc *) forallb (ainvb s) AS;
    (* 13 IMn *) negb (bad_uaf s) && negb (bad_under s) && negb (bad_null s);
    (* 14 statement (i) as the acceptor checks it *) got_ok s;
    (* 15 statement (v): quiescence *)
       impb (forallb (fun a => pcis (A s a) Idle || pcis (A s a) Ext) AS)
            (Nat.leb (HLb s) (tix s) &&
             forallb (fun i => impb (Nat.ltb i (HLb s)) (existsb (Nat.eqb i) (map (fun g => snd (fst g)) (got s)))) IS);
    (* 16 per actor the indices in got increase *)
       forallb (fun a => let l := map (fun g => snd (fst g)) (filter (fun g => Nat.eqb (fst (fst g)) a) (got s)) in
                         (fix inc (l : list nat) := match l with x :: ((y :: _) as r) => Nat.ltb x y && inc r | _ => true end) l) AS ].

Fixpoint firstbad (l : list bool) (n : nat) : nat :=
  match l with [] => 0 | b :: r => if b then firstbad r (S n) else n end.
Definition invb (s : st) : nat := firstbad (clauses s) 1.
(* a claimer in the wait loop whose range is not filled yet *)
Definition waits (s : st) : bool := existsb (fun a => pcis (A s a) XW && Nat.ltb (tix s) (pend (A s a))) AS.
End T.

Extraction "spmc_explore.ml" step init invb waits.
