
(** val negb : bool -> bool **)

let negb = function
| true -> false
| false -> true

(** val fst : ('a1 * 'a2) -> 'a1 **)

let fst = function
| (x, _) -> x

(** val snd : ('a1 * 'a2) -> 'a2 **)

let snd = function
| (_, y) -> y

(** val length : 'a1 list -> int **)

let rec length = function
| [] -> 0
| _ :: l' -> Stdlib.Int.succ (length l')

(** val app : 'a1 list -> 'a1 list -> 'a1 list **)

let rec app l m =
  match l with
  | [] -> m
  | a0 :: l1 -> a0 :: (app l1 m)

(** val add : int -> int -> int **)

let rec add = (+)

(** val mul : int -> int -> int **)

let rec mul = ( * )

(** val sub : int -> int -> int **)

let rec sub = fun n m -> Stdlib.max 0 (n-m)

(** val eqb : bool -> bool -> bool **)

let eqb b1 b2 =
  if b1 then b2 else if b2 then false else true

module Nat =
 struct
  (** val sub : int -> int -> int **)

  let rec sub n m =
    (fun fO fS n -> if n=0 then fO () else fS (n-1))
      (fun _ -> n)
      (fun k ->
      (fun fO fS n -> if n=0 then fO () else fS (n-1))
        (fun _ -> n)
        (fun l -> sub k l)
        m)
      n

  (** val ltb : int -> int -> bool **)

  let ltb n m =
    (<=) (Stdlib.Int.succ n) m

  (** val min : int -> int -> int **)

  let rec min n m =
    (fun fO fS n -> if n=0 then fO () else fS (n-1))
      (fun _ -> 0)
      (fun n' ->
      (fun fO fS n -> if n=0 then fO () else fS (n-1))
        (fun _ -> 0)
        (fun m' -> Stdlib.Int.succ (min n' m'))
        m)
      n

  (** val divmod : int -> int -> int -> int -> int * int **)

  let rec divmod x y q u =
    (fun fO fS n -> if n=0 then fO () else fS (n-1))
      (fun _ -> (q, u))
      (fun x' ->
      (fun fO fS n -> if n=0 then fO () else fS (n-1))
        (fun _ -> divmod x' y (Stdlib.Int.succ q) y)
        (fun u' -> divmod x' y q u')
        u)
      x

  (** val modulo : int -> int -> int **)

  let modulo x y =
    (fun fO fS n -> if n=0 then fO () else fS (n-1))
      (fun _ -> x)
      (fun y' -> sub y' (snd (divmod x y' 0 y')))
      y
 end

(** val nth_error : 'a1 list -> int -> 'a1 option **)

let rec nth_error l n =
  (fun fO fS n -> if n=0 then fO () else fS (n-1))
    (fun _ -> match l with
              | [] -> None
              | x :: _ -> Some x)
    (fun n0 -> match l with
               | [] -> None
               | _ :: l0 -> nth_error l0 n0)
    n

(** val removelast : 'a1 list -> 'a1 list **)

let rec removelast = function
| [] -> []
| a0 :: l0 -> (match l0 with
               | [] -> []
               | _ :: _ -> a0 :: (removelast l0))

(** val rev : 'a1 list -> 'a1 list **)

let rec rev = function
| [] -> []
| x :: l' -> app (rev l') (x :: [])

(** val map : ('a1 -> 'a2) -> 'a1 list -> 'a2 list **)

let rec map f = function
| [] -> []
| a0 :: t -> (f a0) :: (map f t)

(** val existsb : ('a1 -> bool) -> 'a1 list -> bool **)

let rec existsb f = function
| [] -> false
| a0 :: l0 -> (||) (f a0) (existsb f l0)

(** val forallb : ('a1 -> bool) -> 'a1 list -> bool **)

let rec forallb f = function
| [] -> true
| a0 :: l0 -> (&&) (f a0) (forallb f l0)

(** val filter : ('a1 -> bool) -> 'a1 list -> 'a1 list **)

let rec filter f = function
| [] -> []
| x :: l0 -> if f x then x :: (filter f l0) else filter f l0

(** val seq : int -> int -> int list **)

let rec seq start len =
  (fun fO fS n -> if n=0 then fO () else fS (n-1))
    (fun _ -> [])
    (fun len0 -> start :: (seq (Stdlib.Int.succ start) len0))
    len

type opk =
| KPush
| KLocal
| KPop
| KBulk
| KSteal
| KEmpty
| KOwn

type pcT =
| Idle
| Ext
| OW
| ON
| OB
| OC
| X0
| X1
| X2
| XC
| XS
| XT
| XR
| XN
| XH
| XH2
| XW
| XG
| XM
| LK
| LKr
| E0
| E1
| E2

type blk = { alive : bool; bstart : int; bno : int; used : int;
             next : int option; slots : (int -> int option) }

type ast = { pc : pcT; kd : opk; pvl : int; lb : int; li : int; lpi : 
             int; ltb0 : int; nid : int; ppi : int; pend : int;
             lnx : int option; lnew : int; res : int option list;
             retry : bool; rv : int option list; rb : bool;
             dq : int option list; glo : int; ghi : int }

type st = { hb : int; hi : int; hl : bool; tix : int; tbk : int;
            heap : (int -> blk); a : (int -> ast); pushed : int list;
            nblk : int; badr : (int -> int); born : (int -> bool);
            cl : (int -> int option); rd : (int -> bool); rl : (int -> bool);
            got : ((int * int) * int option) list; bad_uaf : bool;
            bad_under : bool; bad_null : bool }

(** val b_alive : blk -> bool -> blk **)

let b_alive x v =
  { alive = v; bstart = x.bstart; bno = x.bno; used = x.used; next = x.next;
    slots = x.slots }

(** val b_used : blk -> int -> blk **)

let b_used x v =
  { alive = x.alive; bstart = x.bstart; bno = x.bno; used = v; next = x.next;
    slots = x.slots }

(** val b_next : blk -> int option -> blk **)

let b_next x v =
  { alive = x.alive; bstart = x.bstart; bno = x.bno; used = x.used; next = v;
    slots = x.slots }

(** val b_slots : blk -> (int -> int option) -> blk **)

let b_slots x v =
  { alive = x.alive; bstart = x.bstart; bno = x.bno; used = x.used; next =
    x.next; slots = v }

(** val a_pc : ast -> pcT -> ast **)

let a_pc x v =
  { pc = v; kd = x.kd; pvl = x.pvl; lb = x.lb; li = x.li; lpi = x.lpi; ltb0 =
    x.ltb0; nid = x.nid; ppi = x.ppi; pend = x.pend; lnx = x.lnx; lnew =
    x.lnew; res = x.res; retry = x.retry; rv = x.rv; rb = x.rb; dq = x.dq;
    glo = x.glo; ghi = x.ghi }

(** val a_kd : ast -> opk -> ast **)

let a_kd x v =
  { pc = x.pc; kd = v; pvl = x.pvl; lb = x.lb; li = x.li; lpi = x.lpi; ltb0 =
    x.ltb0; nid = x.nid; ppi = x.ppi; pend = x.pend; lnx = x.lnx; lnew =
    x.lnew; res = x.res; retry = x.retry; rv = x.rv; rb = x.rb; dq = x.dq;
    glo = x.glo; ghi = x.ghi }

(** val a_pvl : ast -> int -> ast **)

let a_pvl x v =
  { pc = x.pc; kd = x.kd; pvl = v; lb = x.lb; li = x.li; lpi = x.lpi; ltb0 =
    x.ltb0; nid = x.nid; ppi = x.ppi; pend = x.pend; lnx = x.lnx; lnew =
    x.lnew; res = x.res; retry = x.retry; rv = x.rv; rb = x.rb; dq = x.dq;
    glo = x.glo; ghi = x.ghi }

(** val a_lb : ast -> int -> ast **)

let a_lb x v =
  { pc = x.pc; kd = x.kd; pvl = x.pvl; lb = v; li = x.li; lpi = x.lpi; ltb0 =
    x.ltb0; nid = x.nid; ppi = x.ppi; pend = x.pend; lnx = x.lnx; lnew =
    x.lnew; res = x.res; retry = x.retry; rv = x.rv; rb = x.rb; dq = x.dq;
    glo = x.glo; ghi = x.ghi }

(** val a_li : ast -> int -> ast **)

let a_li x v =
  { pc = x.pc; kd = x.kd; pvl = x.pvl; lb = x.lb; li = v; lpi = x.lpi; ltb0 =
    x.ltb0; nid = x.nid; ppi = x.ppi; pend = x.pend; lnx = x.lnx; lnew =
    x.lnew; res = x.res; retry = x.retry; rv = x.rv; rb = x.rb; dq = x.dq;
    glo = x.glo; ghi = x.ghi }

(** val a_lpi : ast -> int -> ast **)

let a_lpi x v =
  { pc = x.pc; kd = x.kd; pvl = x.pvl; lb = x.lb; li = x.li; lpi = v; ltb0 =
    x.ltb0; nid = x.nid; ppi = x.ppi; pend = x.pend; lnx = x.lnx; lnew =
    x.lnew; res = x.res; retry = x.retry; rv = x.rv; rb = x.rb; dq = x.dq;
    glo = x.glo; ghi = x.ghi }

(** val a_ltb : ast -> int -> ast **)

let a_ltb x v =
  { pc = x.pc; kd = x.kd; pvl = x.pvl; lb = x.lb; li = x.li; lpi = x.lpi;
    ltb0 = v; nid = x.nid; ppi = x.ppi; pend = x.pend; lnx = x.lnx; lnew =
    x.lnew; res = x.res; retry = x.retry; rv = x.rv; rb = x.rb; dq = x.dq;
    glo = x.glo; ghi = x.ghi }

(** val a_nid : ast -> int -> ast **)

let a_nid x v =
  { pc = x.pc; kd = x.kd; pvl = x.pvl; lb = x.lb; li = x.li; lpi = x.lpi;
    ltb0 = x.ltb0; nid = v; ppi = x.ppi; pend = x.pend; lnx = x.lnx; lnew =
    x.lnew; res = x.res; retry = x.retry; rv = x.rv; rb = x.rb; dq = x.dq;
    glo = x.glo; ghi = x.ghi }

(** val a_ppi : ast -> int -> ast **)

let a_ppi x v =
  { pc = x.pc; kd = x.kd; pvl = x.pvl; lb = x.lb; li = x.li; lpi = x.lpi;
    ltb0 = x.ltb0; nid = x.nid; ppi = v; pend = x.pend; lnx = x.lnx; lnew =
    x.lnew; res = x.res; retry = x.retry; rv = x.rv; rb = x.rb; dq = x.dq;
    glo = x.glo; ghi = x.ghi }

(** val a_pend : ast -> int -> ast **)

let a_pend x v =
  { pc = x.pc; kd = x.kd; pvl = x.pvl; lb = x.lb; li = x.li; lpi = x.lpi;
    ltb0 = x.ltb0; nid = x.nid; ppi = x.ppi; pend = v; lnx = x.lnx; lnew =
    x.lnew; res = x.res; retry = x.retry; rv = x.rv; rb = x.rb; dq = x.dq;
    glo = x.glo; ghi = x.ghi }

(** val a_lnx : ast -> int option -> ast **)

let a_lnx x v =
  { pc = x.pc; kd = x.kd; pvl = x.pvl; lb = x.lb; li = x.li; lpi = x.lpi;
    ltb0 = x.ltb0; nid = x.nid; ppi = x.ppi; pend = x.pend; lnx = v; lnew =
    x.lnew; res = x.res; retry = x.retry; rv = x.rv; rb = x.rb; dq = x.dq;
    glo = x.glo; ghi = x.ghi }

(** val a_lnew : ast -> int -> ast **)

let a_lnew x v =
  { pc = x.pc; kd = x.kd; pvl = x.pvl; lb = x.lb; li = x.li; lpi = x.lpi;
    ltb0 = x.ltb0; nid = x.nid; ppi = x.ppi; pend = x.pend; lnx = x.lnx;
    lnew = v; res = x.res; retry = x.retry; rv = x.rv; rb = x.rb; dq = x.dq;
    glo = x.glo; ghi = x.ghi }

(** val a_res : ast -> int option list -> ast **)

let a_res x v =
  { pc = x.pc; kd = x.kd; pvl = x.pvl; lb = x.lb; li = x.li; lpi = x.lpi;
    ltb0 = x.ltb0; nid = x.nid; ppi = x.ppi; pend = x.pend; lnx = x.lnx;
    lnew = x.lnew; res = v; retry = x.retry; rv = x.rv; rb = x.rb; dq = x.dq;
    glo = x.glo; ghi = x.ghi }

(** val a_retry : ast -> bool -> ast **)

let a_retry x v =
  { pc = x.pc; kd = x.kd; pvl = x.pvl; lb = x.lb; li = x.li; lpi = x.lpi;
    ltb0 = x.ltb0; nid = x.nid; ppi = x.ppi; pend = x.pend; lnx = x.lnx;
    lnew = x.lnew; res = x.res; retry = v; rv = x.rv; rb = x.rb; dq = x.dq;
    glo = x.glo; ghi = x.ghi }

(** val a_rv : ast -> int option list -> ast **)

let a_rv x v =
  { pc = x.pc; kd = x.kd; pvl = x.pvl; lb = x.lb; li = x.li; lpi = x.lpi;
    ltb0 = x.ltb0; nid = x.nid; ppi = x.ppi; pend = x.pend; lnx = x.lnx;
    lnew = x.lnew; res = x.res; retry = x.retry; rv = v; rb = x.rb; dq =
    x.dq; glo = x.glo; ghi = x.ghi }

(** val a_rb : ast -> bool -> ast **)

let a_rb x v =
  { pc = x.pc; kd = x.kd; pvl = x.pvl; lb = x.lb; li = x.li; lpi = x.lpi;
    ltb0 = x.ltb0; nid = x.nid; ppi = x.ppi; pend = x.pend; lnx = x.lnx;
    lnew = x.lnew; res = x.res; retry = x.retry; rv = x.rv; rb = v; dq =
    x.dq; glo = x.glo; ghi = x.ghi }

(** val a_dq : ast -> int option list -> ast **)

let a_dq x v =
  { pc = x.pc; kd = x.kd; pvl = x.pvl; lb = x.lb; li = x.li; lpi = x.lpi;
    ltb0 = x.ltb0; nid = x.nid; ppi = x.ppi; pend = x.pend; lnx = x.lnx;
    lnew = x.lnew; res = x.res; retry = x.retry; rv = x.rv; rb = x.rb; dq =
    v; glo = x.glo; ghi = x.ghi }

(** val a_glo : ast -> int -> ast **)

let a_glo x v =
  { pc = x.pc; kd = x.kd; pvl = x.pvl; lb = x.lb; li = x.li; lpi = x.lpi;
    ltb0 = x.ltb0; nid = x.nid; ppi = x.ppi; pend = x.pend; lnx = x.lnx;
    lnew = x.lnew; res = x.res; retry = x.retry; rv = x.rv; rb = x.rb; dq =
    x.dq; glo = v; ghi = x.ghi }

(** val a_ghi : ast -> int -> ast **)

let a_ghi x v =
  { pc = x.pc; kd = x.kd; pvl = x.pvl; lb = x.lb; li = x.li; lpi = x.lpi;
    ltb0 = x.ltb0; nid = x.nid; ppi = x.ppi; pend = x.pend; lnx = x.lnx;
    lnew = x.lnew; res = x.res; retry = x.retry; rv = x.rv; rb = x.rb; dq =
    x.dq; glo = x.glo; ghi = v }

(** val s_hb : st -> int -> st **)

let s_hb x v =
  { hb = v; hi = x.hi; hl = x.hl; tix = x.tix; tbk = x.tbk; heap = x.heap;
    a = x.a; pushed = x.pushed; nblk = x.nblk; badr = x.badr; born = x.born;
    cl = x.cl; rd = x.rd; rl = x.rl; got = x.got; bad_uaf = x.bad_uaf;
    bad_under = x.bad_under; bad_null = x.bad_null }

(** val s_hi : st -> int -> st **)

let s_hi x v =
  { hb = x.hb; hi = v; hl = x.hl; tix = x.tix; tbk = x.tbk; heap = x.heap;
    a = x.a; pushed = x.pushed; nblk = x.nblk; badr = x.badr; born = x.born;
    cl = x.cl; rd = x.rd; rl = x.rl; got = x.got; bad_uaf = x.bad_uaf;
    bad_under = x.bad_under; bad_null = x.bad_null }

(** val s_hl : st -> bool -> st **)

let s_hl x v =
  { hb = x.hb; hi = x.hi; hl = v; tix = x.tix; tbk = x.tbk; heap = x.heap;
    a = x.a; pushed = x.pushed; nblk = x.nblk; badr = x.badr; born = x.born;
    cl = x.cl; rd = x.rd; rl = x.rl; got = x.got; bad_uaf = x.bad_uaf;
    bad_under = x.bad_under; bad_null = x.bad_null }

(** val s_tix : st -> int -> st **)

let s_tix x v =
  { hb = x.hb; hi = x.hi; hl = x.hl; tix = v; tbk = x.tbk; heap = x.heap; a =
    x.a; pushed = x.pushed; nblk = x.nblk; badr = x.badr; born = x.born; cl =
    x.cl; rd = x.rd; rl = x.rl; got = x.got; bad_uaf = x.bad_uaf; bad_under =
    x.bad_under; bad_null = x.bad_null }

(** val s_tbk : st -> int -> st **)

let s_tbk x v =
  { hb = x.hb; hi = x.hi; hl = x.hl; tix = x.tix; tbk = v; heap = x.heap; a =
    x.a; pushed = x.pushed; nblk = x.nblk; badr = x.badr; born = x.born; cl =
    x.cl; rd = x.rd; rl = x.rl; got = x.got; bad_uaf = x.bad_uaf; bad_under =
    x.bad_under; bad_null = x.bad_null }

(** val s_heap : st -> (int -> blk) -> st **)

let s_heap x v =
  { hb = x.hb; hi = x.hi; hl = x.hl; tix = x.tix; tbk = x.tbk; heap = v; a =
    x.a; pushed = x.pushed; nblk = x.nblk; badr = x.badr; born = x.born; cl =
    x.cl; rd = x.rd; rl = x.rl; got = x.got; bad_uaf = x.bad_uaf; bad_under =
    x.bad_under; bad_null = x.bad_null }

(** val s_A : st -> (int -> ast) -> st **)

let s_A x v =
  { hb = x.hb; hi = x.hi; hl = x.hl; tix = x.tix; tbk = x.tbk; heap = x.heap;
    a = v; pushed = x.pushed; nblk = x.nblk; badr = x.badr; born = x.born;
    cl = x.cl; rd = x.rd; rl = x.rl; got = x.got; bad_uaf = x.bad_uaf;
    bad_under = x.bad_under; bad_null = x.bad_null }

(** val s_pushed : st -> int list -> st **)

let s_pushed x v =
  { hb = x.hb; hi = x.hi; hl = x.hl; tix = x.tix; tbk = x.tbk; heap = x.heap;
    a = x.a; pushed = v; nblk = x.nblk; badr = x.badr; born = x.born; cl =
    x.cl; rd = x.rd; rl = x.rl; got = x.got; bad_uaf = x.bad_uaf; bad_under =
    x.bad_under; bad_null = x.bad_null }

(** val s_nblk : st -> int -> st **)

let s_nblk x v =
  { hb = x.hb; hi = x.hi; hl = x.hl; tix = x.tix; tbk = x.tbk; heap = x.heap;
    a = x.a; pushed = x.pushed; nblk = v; badr = x.badr; born = x.born; cl =
    x.cl; rd = x.rd; rl = x.rl; got = x.got; bad_uaf = x.bad_uaf; bad_under =
    x.bad_under; bad_null = x.bad_null }

(** val s_badr : st -> (int -> int) -> st **)

let s_badr x v =
  { hb = x.hb; hi = x.hi; hl = x.hl; tix = x.tix; tbk = x.tbk; heap = x.heap;
    a = x.a; pushed = x.pushed; nblk = x.nblk; badr = v; born = x.born; cl =
    x.cl; rd = x.rd; rl = x.rl; got = x.got; bad_uaf = x.bad_uaf; bad_under =
    x.bad_under; bad_null = x.bad_null }

(** val s_born : st -> (int -> bool) -> st **)

let s_born x v =
  { hb = x.hb; hi = x.hi; hl = x.hl; tix = x.tix; tbk = x.tbk; heap = x.heap;
    a = x.a; pushed = x.pushed; nblk = x.nblk; badr = x.badr; born = v; cl =
    x.cl; rd = x.rd; rl = x.rl; got = x.got; bad_uaf = x.bad_uaf; bad_under =
    x.bad_under; bad_null = x.bad_null }

(** val s_cl : st -> (int -> int option) -> st **)

let s_cl x v =
  { hb = x.hb; hi = x.hi; hl = x.hl; tix = x.tix; tbk = x.tbk; heap = x.heap;
    a = x.a; pushed = x.pushed; nblk = x.nblk; badr = x.badr; born = x.born;
    cl = v; rd = x.rd; rl = x.rl; got = x.got; bad_uaf = x.bad_uaf;
    bad_under = x.bad_under; bad_null = x.bad_null }

(** val s_rd : st -> (int -> bool) -> st **)

let s_rd x v =
  { hb = x.hb; hi = x.hi; hl = x.hl; tix = x.tix; tbk = x.tbk; heap = x.heap;
    a = x.a; pushed = x.pushed; nblk = x.nblk; badr = x.badr; born = x.born;
    cl = x.cl; rd = v; rl = x.rl; got = x.got; bad_uaf = x.bad_uaf;
    bad_under = x.bad_under; bad_null = x.bad_null }

(** val s_rl : st -> (int -> bool) -> st **)

let s_rl x v =
  { hb = x.hb; hi = x.hi; hl = x.hl; tix = x.tix; tbk = x.tbk; heap = x.heap;
    a = x.a; pushed = x.pushed; nblk = x.nblk; badr = x.badr; born = x.born;
    cl = x.cl; rd = x.rd; rl = v; got = x.got; bad_uaf = x.bad_uaf;
    bad_under = x.bad_under; bad_null = x.bad_null }

(** val s_got : st -> ((int * int) * int option) list -> st **)

let s_got x v =
  { hb = x.hb; hi = x.hi; hl = x.hl; tix = x.tix; tbk = x.tbk; heap = x.heap;
    a = x.a; pushed = x.pushed; nblk = x.nblk; badr = x.badr; born = x.born;
    cl = x.cl; rd = x.rd; rl = x.rl; got = v; bad_uaf = x.bad_uaf;
    bad_under = x.bad_under; bad_null = x.bad_null }

(** val s_bad_uaf : st -> bool -> st **)

let s_bad_uaf x v =
  { hb = x.hb; hi = x.hi; hl = x.hl; tix = x.tix; tbk = x.tbk; heap = x.heap;
    a = x.a; pushed = x.pushed; nblk = x.nblk; badr = x.badr; born = x.born;
    cl = x.cl; rd = x.rd; rl = x.rl; got = x.got; bad_uaf = v; bad_under =
    x.bad_under; bad_null = x.bad_null }

(** val s_bad_under : st -> bool -> st **)

let s_bad_under x v =
  { hb = x.hb; hi = x.hi; hl = x.hl; tix = x.tix; tbk = x.tbk; heap = x.heap;
    a = x.a; pushed = x.pushed; nblk = x.nblk; badr = x.badr; born = x.born;
    cl = x.cl; rd = x.rd; rl = x.rl; got = x.got; bad_uaf = x.bad_uaf;
    bad_under = v; bad_null = x.bad_null }

(** val s_bad_null : st -> bool -> st **)

let s_bad_null x v =
  { hb = x.hb; hi = x.hi; hl = x.hl; tix = x.tix; tbk = x.tbk; heap = x.heap;
    a = x.a; pushed = x.pushed; nblk = x.nblk; badr = x.badr; born = x.born;
    cl = x.cl; rd = x.rd; rl = x.rl; got = x.got; bad_uaf = x.bad_uaf;
    bad_under = x.bad_under; bad_null = v }

(** val upd : (int -> 'a1) -> int -> 'a1 -> int -> 'a1 **)

let upd f i v j =
  if (=) j i then v else f j

(** val inr : int -> int -> int -> bool **)

let inr lo hi0 i =
  (&&) ((<=) lo i) (Nat.ltb i hi0)

(** val updr : (int -> 'a1) -> int -> int -> 'a1 -> int -> 'a1 **)

let updr f lo hi0 v j =
  if inr lo hi0 j then v else f j

type action =
| Call of int * opk * int
| Step of int * int
| Ret of int

(** val is_bulk : opk -> bool **)

let is_bulk = function
| KBulk -> true
| KSteal -> true
| _ -> false

(** val is_local : opk -> bool **)

let is_local = function
| KLocal -> true
| _ -> false

(** val is_steal : opk -> bool **)

let is_steal = function
| KSteal -> true
| _ -> false

(** val is_own : opk -> bool **)

let is_own = function
| KOwn -> true
| _ -> false

(** val call_ok : int -> opk -> bool **)

let call_ok a0 = function
| KPush -> (=) a0 0
| KLocal -> (=) a0 0
| KEmpty -> true
| _ -> negb ((=) a0 0)

(** val entry : opk -> pcT **)

let entry = function
| KPush -> OW
| KEmpty -> E0
| KOwn -> Ext
| _ -> X0

(** val emptyck : int -> ast -> bool **)

let emptyck b x =
  (&&) ((=) x.lb x.ltb0) ((<=) (Nat.modulo x.lpi b) x.li)

(** val newid : int -> ast -> int **)

let newid b x =
  if is_bulk x.kd
  then if (=) x.lb x.ltb0 then Nat.modulo x.lpi b else 0
  else 0

(** val locked : int -> ast -> bool **)

let locked b x =
  if is_bulk x.kd then (=) x.nid 0 else (=) (Stdlib.Int.succ x.li) b

(** val nexti : ast -> int **)

let nexti x =
  if is_bulk x.kd then x.nid else Stdlib.Int.succ x.li

(** val setA : st -> int -> ast -> st **)

let setA s a0 x =
  s_A s (upd s.a a0 x)

(** val deref : st -> int -> st **)

let deref s b =
  s_bad_uaf s ((||) s.bad_uaf (negb (s.heap b).alive))

(** val fresh_blk : int -> int -> int -> blk **)

let fresh_blk b start k =
  { alive = true; bstart = start; bno = k; used = b; next = None; slots =
    (fun _ -> None) }

(** val after_loads : int -> st -> int -> ast -> st **)

let after_loads b s a0 x =
  if emptyck b x
  then setA s a0 (a_pc x Idle)
  else setA s a0 (a_pc (a_nid x (newid b x)) XC)

(** val release : st -> int -> int -> st **)

let release s b n =
  let k = s.heap b in
  let old = k.used in
  let s1 = deref s b in
  let s2 = s_bad_under s1 ((||) s1.bad_under (Nat.ltb old n)) in
  s_heap s2
    (upd s2.heap b
      (b_alive (b_used k (sub old n)) ((&&) k.alive (negb ((=) old n)))))

(** val step : int -> bool -> st -> action -> st option **)

let step b reuse s = function
| Call (a0, k, v) ->
  let me = s.a a0 in
  (match me.pc with
   | Idle ->
     if call_ok a0 k
     then Some
            (setA s a0
              (a_rb
                (a_rv
                  (a_res
                    (a_retry (a_pvl (a_kd (a_pc me (entry k)) k) v) false) [])
                  []) false))
     else None
   | _ -> None)
| Step (a0, x) ->
  let me = s.a a0 in
  (match me.pc with
   | OW ->
     let s1 = deref s s.tbk in
     let k = s1.heap s1.tbk in
     let s2 =
       s_heap s1
         (upd s1.heap s1.tbk
           (b_slots k (upd k.slots (Nat.modulo s1.tix b) (Some me.pvl))))
     in
     let s3 = s_pushed s2 (app s2.pushed (me.pvl :: [])) in
     Some
     (setA s3 a0
       (a_pc me
         (if (=) (Nat.modulo (Stdlib.Int.succ s.tix) b) 0 then ON else OC)))
   | ON ->
     if (&&) (negb (s.heap x).alive) ((||) reuse (negb (s.born x)))
     then let s1 = deref s s.tbk in
          let h1 =
            upd s1.heap x (fresh_blk b (Stdlib.Int.succ s1.tix) s1.nblk)
          in
          let h2 = upd h1 s1.tbk (b_next (h1 s1.tbk) (Some x)) in
          let s2 = s_heap s1 h2 in
          let s3 =
            s_born
              (s_badr (s_nblk s2 (Stdlib.Int.succ s2.nblk))
                (upd s2.badr s2.nblk x)) (upd s2.born x true)
          in
          Some (setA s3 a0 (a_pc (a_lnew me x) OB))
     else None
   | OB -> Some (setA (s_tbk s me.lnew) a0 (a_pc me OC))
   | OC -> Some (setA (s_tix s (Stdlib.Int.succ s.tix)) a0 (a_pc me Idle))
   | X0 ->
     let me1 = a_li (a_lb me s.hb) s.hi in
     if is_local me.kd
     then Some (after_loads b s a0 (a_ltb (a_lpi me1 s.tix) s.tbk))
     else Some (setA s a0 (a_pc me1 X1))
   | X1 -> Some (setA s a0 (a_pc (a_lpi me s.tix) X2))
   | X2 -> Some (after_loads b s a0 (a_ltb me s.tbk))
   | XC ->
     if (&&) ((&&) ((=) s.hb me.lb) ((=) s.hi me.li)) (negb s.hl)
     then if locked b me
          then Some (setA (s_hl s true) a0 (a_pc me XS))
          else let lo = add (s.heap s.hb).bstart me.li in
               let hi' = add (s.heap s.hb).bstart (nexti me) in
               let s1 = s_hi s (nexti me) in
               let s2 = s_cl s1 (updr s1.cl lo hi' (Some a0)) in
               Some (setA s2 a0 (a_pc (a_ghi (a_glo me lo) hi') XS))
     else let me1 = a_li (a_lb me s.hb) s.hi in
          if is_local me.kd
          then Some (after_loads b s a0 me1)
          else Some (setA s a0 (a_pc (a_retry me1 true) X1))
   | XS ->
     let s1 = deref s me.lb in
     let bs = (s.heap me.lb).bstart in
     let me1 = a_ppi me (add bs me.li) in
     if locked b me
     then if is_local me.kd
          then Some
                 (setA s1 a0
                   (a_pc (a_pend me1 (Stdlib.Int.succ (add bs me.li)))
                     (if (<=) me.lpi (add bs me.li) then XR else XN)))
          else Some (setA s1 a0 (a_pc me1 XT))
     else if is_local me.kd
          then if (<=) me.lpi (add bs me.li)
               then Some
                      (setA s1 a0
                        (a_pc (a_pend me1 (Stdlib.Int.succ (add bs me.li)))
                          LK))
               else Some
                      (setA s1 a0
                        (a_pc (a_pend me1 (Stdlib.Int.succ (add bs me.li)))
                          XG))
          else Some (setA s1 a0 (a_pc (a_pend me1 (add bs (nexti me))) XW))
   | XT ->
     if (<=) s.tix me.ppi
     then Some (setA s a0 (a_pc me XR))
     else if is_bulk me.kd
          then let e = Nat.min (add (sub me.ppi me.li) b) s.tix in
               Some
               (setA s a0
                 (a_pc (a_pend me e)
                   (if (=) (Nat.modulo e b) 0 then XN else XH2)))
          else Some (setA s a0 (a_pc (a_pend me (Stdlib.Int.succ me.ppi)) XN))
   | XR ->
     Some (setA (s_hl (s_hi (s_hb s me.lb) me.li) false) a0 (a_pc me Idle))
   | XN ->
     let s1 = deref s me.lb in
     Some (setA s1 a0 (a_pc (a_lnx me (s.heap me.lb).next) XH))
   | XH ->
     let s1 =
       match me.lnx with
       | Some n -> s_hl (s_hi (s_hb s n) 0) false
       | None -> s_bad_null (s_hl (s_hi (s_hb s 0) 0) false) true
     in
     let s2 = s_cl s1 (updr s1.cl me.ppi me.pend (Some a0)) in
     Some (setA s2 a0 (a_pc (a_ghi (a_glo me me.ppi) me.pend) XG))
   | XH2 ->
     let s1 = s_hl (s_hi (s_hb s me.lb) (Nat.modulo me.pend b)) false in
     let s2 = s_cl s1 (updr s1.cl me.ppi me.pend (Some a0)) in
     Some (setA s2 a0 (a_pc (a_ghi (a_glo me me.ppi) me.pend) XG))
   | XW ->
     if (<=) me.pend s.tix then Some (setA s a0 (a_pc me XG)) else Some s
   | XG ->
     let s1 = deref s me.lb in
     let n = sub me.pend me.ppi in
     let k = s.heap me.lb in
     let vals = map (fun j -> k.slots (add me.li j)) (seq 0 n) in
     let s2 =
       s_got s1
         (app s1.got
           (map (fun j -> ((a0, (add me.ppi j)), (k.slots (add me.li j))))
             (seq 0 n)))
     in
     let s3 = s_rd s2 (updr s2.rd me.ppi me.pend true) in
     Some (setA s3 a0 (a_pc (a_res me vals) XM))
   | XM ->
     let s1 = release s me.lb (sub me.pend me.ppi) in
     let s2 = s_rl s1 (updr s1.rl me.ppi me.pend true) in
     if is_steal me.kd
     then Some
            (setA s2 a0
              (a_pc
                (a_dq
                  (a_rv me
                    (match rev me.res with
                     | [] -> []
                     | v :: _ -> v :: [])) (app me.dq (removelast me.res)))
                Ext))
     else Some (setA s2 a0 (a_pc (a_rv me me.res) Idle))
   | LK -> Some (setA (s_tix s (Stdlib.Int.succ me.lpi)) a0 (a_pc me LKr))
   | LKr ->
     let s1 = release s me.lb (Stdlib.Int.succ 0) in
     let s2 = s_rl s1 (updr s1.rl me.ppi me.pend true) in
     Some (setA s2 a0 (a_pc me Idle))
   | E0 -> Some (setA s a0 (a_pc (a_li (a_lb me s.hb) s.hi) E1))
   | E1 -> Some (setA s a0 (a_pc (a_lpi me s.tix) E2))
   | E2 ->
     let me1 = a_ltb me s.tbk in
     Some
     (setA s a0
       (a_pc
         (a_rb me1
           ((&&) ((=) me1.lb me1.ltb0) ((=) me1.li (Nat.modulo me1.lpi b))))
         Idle))
   | _ -> None)
| Ret a0 ->
  let me = s.a a0 in
  (match me.pc with
   | Ext ->
     if is_own me.kd
     then (match me.dq with
           | [] -> Some (setA s a0 (a_pc me Idle))
           | v :: r ->
             Some (setA s a0 (a_pc (a_dq (a_rv me (v :: [])) r) Idle)))
     else Some (setA s a0 (a_pc me Idle))
   | _ -> None)

(** val ast0 : ast **)

let ast0 =
  { pc = Idle; kd = KEmpty; pvl = 0; lb = 0; li = 0; lpi = 0; ltb0 = 0; nid =
    0; ppi = 0; pend = 0; lnx = None; lnew = 0; res = []; retry = false; rv =
    []; rb = false; dq = []; glo = 0; ghi = 0 }

(** val dead_blk : blk **)

let dead_blk =
  { alive = false; bstart = 0; bno = 0; used = 0; next = None; slots =
    (fun _ -> None) }

(** val init : int -> st **)

let init b =
  { hb = 0; hi = 0; hl = false; tix = 0; tbk = 0; heap = (fun a0 ->
    if (=) a0 0 then fresh_blk b 0 0 else dead_blk); a = (fun _ -> ast0);
    pushed = []; nblk = (Stdlib.Int.succ 0); badr = (fun _ -> 0); born =
    (fun a0 -> (=) a0 0); cl = (fun _ -> None); rd = (fun _ -> false); rl =
    (fun _ -> false); got = []; bad_uaf = false; bad_under = false;
    bad_null = false }

(** val pc_eqb : pcT -> pcT -> bool **)

let pc_eqb x y =
  match x with
  | Idle -> (match y with
             | Idle -> true
             | _ -> false)
  | Ext -> (match y with
            | Ext -> true
            | _ -> false)
  | OW -> (match y with
           | OW -> true
           | _ -> false)
  | ON -> (match y with
           | ON -> true
           | _ -> false)
  | OB -> (match y with
           | OB -> true
           | _ -> false)
  | OC -> (match y with
           | OC -> true
           | _ -> false)
  | X0 -> (match y with
           | X0 -> true
           | _ -> false)
  | X1 -> (match y with
           | X1 -> true
           | _ -> false)
  | X2 -> (match y with
           | X2 -> true
           | _ -> false)
  | XC -> (match y with
           | XC -> true
           | _ -> false)
  | XS -> (match y with
           | XS -> true
           | _ -> false)
  | XT -> (match y with
           | XT -> true
           | _ -> false)
  | XR -> (match y with
           | XR -> true
           | _ -> false)
  | XN -> (match y with
           | XN -> true
           | _ -> false)
  | XH -> (match y with
           | XH -> true
           | _ -> false)
  | XH2 -> (match y with
            | XH2 -> true
            | _ -> false)
  | XW -> (match y with
           | XW -> true
           | _ -> false)
  | XG -> (match y with
           | XG -> true
           | _ -> false)
  | XM -> (match y with
           | XM -> true
           | _ -> false)
  | LK -> (match y with
           | LK -> true
           | _ -> false)
  | LKr -> (match y with
            | LKr -> true
            | _ -> false)
  | E0 -> (match y with
           | E0 -> true
           | _ -> false)
  | E1 -> (match y with
           | E1 -> true
           | _ -> false)
  | E2 -> (match y with
           | E2 -> true
           | _ -> false)

(** val kd_eqb : opk -> opk -> bool **)

let kd_eqb x y =
  match x with
  | KPush -> (match y with
              | KPush -> true
              | _ -> false)
  | KLocal -> (match y with
               | KLocal -> true
               | _ -> false)
  | KPop -> (match y with
             | KPop -> true
             | _ -> false)
  | KBulk -> (match y with
              | KBulk -> true
              | _ -> false)
  | KSteal -> (match y with
               | KSteal -> true
               | _ -> false)
  | KEmpty -> (match y with
               | KEmpty -> true
               | _ -> false)
  | KOwn -> (match y with
             | KOwn -> true
             | _ -> false)

(** val nodupb : int list -> bool **)

let rec nodupb = function
| [] -> true
| i :: r -> (&&) (negb (existsb ((=) i) r)) (nodupb r)

(** val oeqb : int option -> int option -> bool **)

let oeqb x y =
  match x with
  | Some a0 -> (match y with
                | Some b -> (=) a0 b
                | None -> false)
  | None -> (match y with
             | Some _ -> false
             | None -> true)

(** val got_ok : st -> bool **)

let got_ok s =
  (&&) (nodupb (map (fun g -> snd (fst g)) s.got))
    (forallb (fun g ->
      (&&)
        (match snd g with
         | Some _ -> oeqb (snd g) (nth_error s.pushed (snd (fst g)))
         | None -> false) (Nat.ltb (snd (fst g)) s.tix)) s.got)

(** val cntu : (int -> bool) -> int -> int -> int **)

let rec cntu f lo n =
  (fun fO fS n -> if n=0 then fO () else fS (n-1))
    (fun _ -> 0)
    (fun m ->
    add (if f lo then 0 else Stdlib.Int.succ 0)
      (cntu f (Stdlib.Int.succ lo) m))
    n

(** val lockedB : int -> ast -> bool **)

let lockedB =
  locked

(** val holds : int -> ast -> bool **)

let holds b x =
  match x.pc with
  | XS -> negb (lockedB b x)
  | XW -> true
  | XG -> true
  | XM -> true
  | LK -> true
  | LKr -> true
  | _ -> false

(** val lockpc : int -> ast -> bool **)

let lockpc b x =
  match x.pc with
  | XS -> lockedB b x
  | XT -> true
  | XR -> true
  | XN -> true
  | XH -> true
  | XH2 -> true
  | _ -> false

(** val inpush : pcT -> bool **)

let inpush = function
| OW -> true
| ON -> true
| OB -> true
| OC -> true
| _ -> false

(** val impb : bool -> bool -> bool **)

let impb a0 b =
  (||) (negb a0) b

(** val pcis : ast -> pcT -> bool **)

let pcis x p =
  pc_eqb x.pc p

(** val kdis : ast -> opk -> bool **)

let kdis x k =
  kd_eqb x.kd k

(** val aS : int -> int list **)

let aS nA =
  seq 0 nA

(** val bS : int -> int list **)

let bS nB =
  seq 0 nB

(** val iS : int -> int list **)

let iS nI =
  seq 0 nI

(** val hLb : st -> int **)

let hLb s =
  add (s.heap s.hb).bstart s.hi

(** val claim_okb : int -> int -> st -> int -> ast -> bool **)

let claim_okb b nI s a0 x =
  (&&)
    ((&&)
      ((&&) ((&&) (Nat.ltb x.glo x.ghi) (s.heap x.lb).alive)
        ((=) x.glo (add (s.heap x.lb).bstart x.li)))
      ((<=) x.ghi (add (s.heap x.lb).bstart b)))
    (forallb (fun i ->
      impb (inr x.glo x.ghi i)
        ((&&) ((&&) (oeqb (s.cl i) (Some a0)) (negb (s.rl i)))
          (eqb (s.rd i) (pcis x XM)))) (iS nI))

(** val lock_okb : st -> ast -> bool **)

let lock_okb s x =
  (&&) ((&&) s.hl ((=) s.hb x.lb)) ((=) s.hi x.li)

(** val local_okb : st -> ast -> bool **)

let local_okb s x =
  impb (kdis x KLocal) ((&&) ((=) x.lpi s.tix) ((=) x.ltb0 s.tbk))

(** val val_atb : st -> int -> int option **)

let val_atb s i =
  nth_error s.pushed i

(** val leqb : int option list -> int option list -> bool **)

let rec leqb l1 l2 =
  match l1 with
  | [] -> (match l2 with
           | [] -> true
           | _ :: _ -> false)
  | a0 :: r ->
    (match l2 with
     | [] -> false
     | b :: r' -> (&&) (oeqb a0 b) (leqb r r'))

(** val ainvb : int -> int -> st -> int -> bool **)

let ainvb b nI s a0 =
  let x = s.a a0 in
  let bs = (s.heap x.lb).bstart in
  (&&)
    ((&&)
      ((&&) (Nat.ltb x.li b)
        (impb ((||) (kdis x KLocal) (kdis x KPush)) ((=) a0 0)))
      (impb (inpush x.pc) (kdis x KPush)))
    (match x.pc with
     | X1 -> negb (kdis x KLocal)
     | X2 -> negb (kdis x KLocal)
     | XC ->
       (&&) ((&&) (negb (emptyck b x)) ((=) x.nid (newid b x)))
         (local_okb s x)
     | XS ->
       (&&) ((&&) (Nat.ltb x.nid b) (local_okb s x))
         (if locked b x
          then (&&) (lock_okb s x)
                 (impb (kdis x KLocal)
                   ((<=) (Stdlib.Int.succ (add bs x.li)) s.tix))
          else (&&)
                 ((&&) (claim_okb b nI s a0 x) ((=) x.ghi (add bs (nexti x))))
                 (impb (kdis x KLocal) ((<=) x.ghi s.tix)))
     | XT ->
       (&&)
         ((&&) ((&&) (lock_okb s x) (negb (kdis x KLocal)))
           ((=) x.ppi (add bs x.li))) (locked b x)
     | XR -> (&&) (lock_okb s x) (negb (kdis x KLocal))
     | XN ->
       (&&)
         ((&&) ((&&) (lock_okb s x) ((=) x.ppi (add bs x.li)))
           ((=) x.pend (add bs b))) ((<=) x.pend s.tix)
     | XH ->
       (&&)
         ((&&)
           ((&&)
             ((&&) ((&&) (lock_okb s x) ((=) x.ppi (add bs x.li)))
               ((=) x.pend (add bs b))) ((<=) x.pend s.tix))
           (oeqb x.lnx (Some (s.badr (Stdlib.Int.succ (s.heap x.lb).bno)))))
         (Nat.ltb (Stdlib.Int.succ (s.heap x.lb).bno) s.nblk)
     | XH2 ->
       (&&)
         ((&&)
           ((&&) ((&&) (lock_okb s x) ((=) x.ppi (add bs x.li)))
             (Nat.ltb x.ppi x.pend)) (Nat.ltb x.pend (add bs b)))
         ((<=) x.pend s.tix)
     | XW ->
       (&&) ((&&) (claim_okb b nI s a0 x) ((=) x.ppi x.glo))
         ((=) x.pend x.ghi)
     | XG ->
       (&&)
         ((&&) ((&&) (claim_okb b nI s a0 x) ((=) x.ppi x.glo))
           ((=) x.pend x.ghi)) ((<=) x.pend s.tix)
     | XM ->
       (&&)
         ((&&)
           ((&&) ((&&) (claim_okb b nI s a0 x) ((=) x.ppi x.glo))
             ((=) x.pend x.ghi)) ((<=) x.pend s.tix))
         (leqb x.res (map (val_atb s) (seq x.glo (sub x.ghi x.glo))))
     | LK -> false
     | LKr -> false
     | _ -> true)

(** val range : int -> int -> int -> bool **)

let range lo hi0 v =
  (&&) ((<=) lo v) (Nat.ltb v hi0)

(** val clauses : int -> int -> int -> int -> st -> bool list **)

let clauses b nA nB nI s =
  let p = (s.a 0).pc in
  let lenp = length s.pushed in
  ((&&) (Nat.ltb s.hi b) (s.heap s.hb).alive) :: (((&&)
                                                    ((&&)
                                                      ((&&)
                                                        ((<=)
                                                          (Stdlib.Int.succ 0)
                                                          s.nblk)
                                                        (if pc_eqb p OB
                                                         then (&&)
                                                                ((&&)
                                                                  ((<=)
                                                                    (Stdlib.Int.succ
                                                                    (Stdlib.Int.succ
                                                                    0))
                                                                    s.nblk)
                                                                  ((=) s.tbk
                                                                    (s.badr
                                                                    (sub
                                                                    s.nblk
                                                                    (Stdlib.Int.succ
                                                                    (Stdlib.Int.succ
                                                                    0))))))
                                                                ((=)
                                                                  (s.a 0).lnew
                                                                  (s.badr
                                                                    (sub
                                                                    s.nblk
                                                                    (Stdlib.Int.succ
                                                                    0))))
                                                         else (=) s.tbk
                                                                (s.badr
                                                                  (sub s.nblk
                                                                    (Stdlib.Int.succ
                                                                    0)))))
                                                      (s.heap s.tbk).alive)
                                                    (match p with
                                                     | ON ->
                                                       (&&)
                                                         ((=) lenp
                                                           (Stdlib.Int.succ
                                                           s.tix))
                                                         ((=)
                                                           (Stdlib.Int.succ
                                                           s.tix)
                                                           (mul s.nblk b))
                                                     | OB ->
                                                       (&&)
                                                         ((=) lenp
                                                           (Stdlib.Int.succ
                                                           s.tix))
                                                         ((=)
                                                           (Stdlib.Int.succ
                                                           s.tix)
                                                           (mul
                                                             (sub s.nblk
                                                               (Stdlib.Int.succ
                                                               0)) b))
                                                     | OC ->
                                                       (&&)
                                                         ((=) lenp
                                                           (Stdlib.Int.succ
                                                           s.tix))
                                                         (range
                                                           (mul
                                                             (sub s.nblk
                                                               (Stdlib.Int.succ
                                                               0)) b)
                                                           (mul s.nblk b)
                                                           (Stdlib.Int.succ
                                                           s.tix))
                                                     | _ ->
                                                       (&&) ((=) lenp s.tix)
                                                         (range
                                                           (mul
                                                             (sub s.nblk
                                                               (Stdlib.Int.succ
                                                               0)) b)
                                                           (mul s.nblk b)
                                                           s.tix))) :: (
  (forallb (fun b0 ->
    impb (s.heap b0).alive
      (let k = (s.heap b0).bno in
       (&&)
         ((&&)
           ((&&)
             ((&&)
               ((&&) ((&&) (Nat.ltb k s.nblk) ((=) (s.badr k) b0))
                 ((=) (s.heap b0).bstart (mul k b)))
               (Nat.ltb 0 (s.heap b0).used))
             ((=) (s.heap b0).used (cntu s.rl (mul k b) b)))
           (impb (Nat.ltb (Stdlib.Int.succ k) s.nblk)
             (oeqb (s.heap b0).next (Some (s.badr (Stdlib.Int.succ k))))))
         (forallb (fun j ->
           impb (Nat.ltb (add (mul k b) j) lenp)
             (oeqb ((s.heap b0).slots j) (val_atb s (add (mul k b) j))))
           (seq 0 b)))) (bS nB)) :: ((forallb (fun k ->
                                       forallb (fun i ->
                                         impb
                                           ((&&)
                                             (range (mul k b)
                                               (add (mul k b) b) i)
                                             (negb (s.rl i)))
                                           ((&&) (s.heap (s.badr k)).alive
                                             ((=) (s.heap (s.badr k)).bno k)))
                                         (iS nI)) (seq 0 s.nblk)) :: (
  (forallb (fun i ->
    eqb (match s.cl i with
         | Some _ -> true
         | None -> false) (Nat.ltb i (hLb s))) (iS nI)) :: ((forallb
                                                              (fun i ->
                                                              (&&)
                                                                (impb
                                                                  (s.rl i)
                                                                  (s.rd i))
                                                                (impb
                                                                  (s.rd i)
                                                                  (match 
                                                                   s.cl i with
                                                                   | Some _ ->
                                                                    true
                                                                   | None ->
                                                                    false)))
                                                              (iS nI)) :: (
  (forallb (fun i ->
    match s.cl i with
    | Some a0 ->
      impb (negb (s.rl i))
        ((&&) (holds b (s.a a0)) (range (s.a a0).glo (s.a a0).ghi i))
    | None -> true) (iS nI)) :: ((forallb (fun g ->
                                   let (y, v) = g in
                                   let (a0, i) = y in
                                   (&&)
                                     ((&&)
                                       ((&&) (s.rd i)
                                         (oeqb (s.cl i) (Some a0)))
                                       (oeqb v (val_atb s i)))
                                     (Nat.ltb i s.tix)) s.got) :: ((nodupb
                                                                    (map
                                                                    (fun g ->
                                                                    snd
                                                                    (fst g))
                                                                    s.got)) :: (
  (forallb (fun i ->
    impb (s.rd i) (existsb ((=) i) (map (fun g -> snd (fst g)) s.got)))
    (iS nI)) :: ((forallb (fun a0 ->
                   forallb (fun a' ->
                     impb ((&&) (lockpc b (s.a a0)) (lockpc b (s.a a')))
                       ((=) a0 a')) (aS nA)) (aS nA)) :: ((forallb
                                                            (ainvb b nI s)
                                                            (aS nA)) :: (
  ((&&) ((&&) (negb s.bad_uaf) (negb s.bad_under)) (negb s.bad_null)) :: (
  (got_ok s) :: ((impb
                   (forallb (fun a0 ->
                     (||) (pcis (s.a a0) Idle) (pcis (s.a a0) Ext)) (aS nA))
                   ((&&) ((<=) (hLb s) s.tix)
                     (forallb (fun i ->
                       impb (Nat.ltb i (hLb s))
                         (existsb ((=) i) (map (fun g -> snd (fst g)) s.got)))
                       (iS nI)))) :: ((forallb (fun a0 ->
                                        let l =
                                          map (fun g -> snd (fst g))
                                            (filter (fun g ->
                                              (=) (fst (fst g)) a0) s.got)
                                        in
                                        let rec inc = function
                                        | [] -> true
                                        | x :: r ->
                                          (match r with
                                           | [] -> true
                                           | y :: _ ->
                                             (&&) (Nat.ltb x y) (inc r))
                                        in inc l) (aS nA)) :: [])))))))))))))))

(** val firstbad : bool list -> int -> int **)

let rec firstbad l n =
  match l with
  | [] -> 0
  | b :: r -> if b then firstbad r (Stdlib.Int.succ n) else n

(** val invb : int -> int -> int -> int -> st -> int **)

let invb b nA nB nI s =
  firstbad (clauses b nA nB nI s) (Stdlib.Int.succ 0)

(** val waits : int -> st -> bool **)

let waits nA s =
  existsb (fun a0 -> (&&) (pcis (s.a a0) XW) (Nat.ltb s.tix (s.a a0).pend))
    (aS nA)
