#!/usr/bin/env python3
"""generate record setters for SpmcModel.v (design aid; output pasted into the model)"""
import sys
def gen(rec, fields, pre):
    out = []
    for f, _ in fields:
        body = "; ".join(f"{g} := {'v' if g == f else g + ' x'}" for g, _ in fields)
        ty = dict(fields)[f]
        out.append(f"Definition {pre}{f} (x : {rec}) (v : {ty}) : {rec} :=\n  {{| {body} |}}.")
    return "\n".join(out)
blk = [("alive","bool"),("bstart","nat"),("bno","nat"),("used","nat"),("next","option nat"),("slots","nat -> option nat")]
ast = [("pc","pcT"),("kd","opk"),("pvl","nat"),("lb","nat"),("li","nat"),("lpi","nat"),("ltb","nat"),("nid","nat"),
       ("ppi","nat"),("pend","nat"),("lnx","option nat"),("lnew","nat"),("res","list (option nat)"),("retry","bool"),
       ("rv","list (option nat)"),("rb","bool"),("dq","list (option nat)"),("glo","nat"),("ghi","nat")]
st = [("hb","nat"),("hi","nat"),("hl","bool"),("tix","nat"),("tbk","nat"),("heap","nat -> blk"),("A","nat -> ast"),
      ("pushed","list nat"),("nblk","nat"),("badr","nat -> nat"),("born","nat -> bool"),
      ("cl","nat -> option nat"),("rd","nat -> bool"),("rl","nat -> bool"),("got","list (nat * nat * option nat)"),
      ("bad_uaf","bool"),("bad_under","bool"),("bad_null","bool")]
print(gen("blk", blk, "b_"))
print(gen("ast", ast, "a_"))
print(gen("st", st, "s_"))
