#!/usr/bin/env python3
"""re-generate the `pinned` tables of a queue binding from the current /repo (run after an intended source change and review the diff).
usage: repin.py <binding.json> <file> [call names...]"""
import sys, json
sys.path.insert(0, '/verif/tools')
import siteaudit as SA
bp, F, calls = sys.argv[1], sys.argv[2], sys.argv[3:]
b = json.load(open(bp))
if calls:
    b['pinned_calls'] = sorted(calls)
cs = set(b.get('pinned_calls', []))
sites = [s for s in SA.audit('/repo', calls=cs) if s['file'] == F]
allow = set('call.' + c for c in cs)
pinned = {}
for s in sites:
    if s['op'].startswith('call.') and s['op'] not in allow:
        continue
    pinned.setdefault(f"{F}|{s['fn']}", []).append([s['recv'], s['op'], ",".join(s['orderings'])])
keep = set(b['pinned'].keys()) | {k for k in pinned if k.endswith('BlockNode::get') or k.endswith('BlockNode::copy_to_bulk')}
b['pinned'] = {k: v for k, v in pinned.items() if k in keep}
json.dump(b, open(bp, 'w'), indent=1)
for k, v in b['pinned'].items():
    print(k, [x[1] if not x[0] else x[0] + '.' + x[1] for x in v])
