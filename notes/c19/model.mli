
val implb : bool -> bool -> bool

val negb : bool -> bool

type nat =
| O
| S of nat

val app : 'a1 list -> 'a1 list -> 'a1 list

val pred : nat -> nat

val add : nat -> nat -> nat

val eqb : bool -> bool -> bool

module Nat :
 sig
  val eqb : nat -> nat -> bool

  val leb : nat -> nat -> bool

  val ltb : nat -> nat -> bool
 end

val flat_map : ('a1 -> 'a2 list) -> 'a1 list -> 'a2 list

val existsb : ('a1 -> bool) -> 'a1 list -> bool

val forallb : ('a1 -> bool) -> 'a1 list -> bool

val seq : nat -> nat -> nat list

type node = { nprev : nat option; nnext : nat option; nval : bool;
              nlink : bool; refs : nat; freed : bool; stage : nat;
              inch : bool; gpred : nat; cons : nat; byrem : bool; ret : 
              bool; hnd : bool; own : nat }

val w_prev : nat option -> node -> node

val w_next : nat option -> node -> node

val w_link : bool -> node -> node

val w_stage : nat -> node -> node

val w_gpred : nat -> node -> node

val w_ret : bool -> node -> node

val w_take : bool -> node -> node

val w_unchain : node -> node

val w_drop : node -> node

type ppc =
| QIdle
| Q0
| Q1
| Q2
| Q3

type pst = { qp : ppc; qn : nat; qprev : nat; qempty : bool; qclk : nat;
             qhead : bool }

type kpc =
| KIdle
| KP0 of bool
| KP1 of bool
| KP2
| KK0
| KK1
| KE0
| KR1
| KR2

type st = { nodes : (nat -> node); nn : nat; head : nat; tail : nat;
            p : (nat -> pst); kp : kpc; kn : nat; kx : nat;
            kres : nat option; kbool : bool; kclock : nat; lastpop : 
            nat; bad_order : bool; bad_head : bool; bad_val : bool;
            bad_mem : bool }

val upd : (nat -> 'a1) -> nat -> 'a1 -> nat -> 'a1

val s_nodes : (nat -> node) -> st -> st

val s_P : (nat -> pst) -> st -> st

val s_k : kpc -> nat -> nat -> st -> st

val s_res : nat option -> st -> st

val s_bool : bool -> st -> st

val s_alloc : nat -> st -> st

val s_tail : nat -> bool -> st -> st

val s_bhead : bool -> st -> st

val s_bval : bool -> st -> st

val s_bmem : bool -> st -> st

val deref : nat list -> st -> st

val modn : nat -> (node -> node) -> st -> st

val fresh : nat -> nat -> node

type action =
| Push of nat
| PStep of nat
| Pop
| PopIf
| Peek
| IsEmpty
| Remove of nat
| DropH of nat
| IsLink of nat
| KStep of bool

val has_handle : st -> nat -> bool

val step : st -> action -> st option

val stub : node

val unalloc : node

val init : st

val monitors_ok : st -> bool

val b2n : bool -> nat

val o2n : nat option -> nat

val ppc2n : ppc -> nat

val kpc2n : kpc -> nat

val dnode : node -> nat list

val dpst : st -> pst -> nat list

val dump : nat -> st -> nat list

val active : pst -> bool

val stage_of : ppc -> nat

val oeq : nat option -> nat option -> bool

val alln : st -> (nat -> bool) -> bool

val imp : bool -> bool -> bool

val inv_b : nat -> st -> bool

val monitors : st -> bool
