#!/usr/bin/env python3
"""apply each mutant of may_queue/src/mpsc_list_v1.rs in the /repo working tree, run ./check C19, restore.
usage: mutants.py [name ...]"""
import subprocess, sys, json, re, os, fcntl
F = "/repo/may_queue/src/mpsc_list_v1.rs"
M = {
 # M1a: remove() always unlinks (guard removed): dereferences a null `next` for the last entry
 "M1a_remove_no_guard": [("            if !next.is_null() {\n                // clear the link bit", "            if true {\n                // clear the link bit")],
 # M1b: remove() unlinks the last entry too, without touching the null next
 "M1b_remove_last_unlinked": [("            if !next.is_null() {\n                // clear the link bit", "            if true {\n                // clear the link bit"),
                              ("                (*next).prev = prev;\n                prev.next.store", "                if !next.is_null() { (*next).prev = prev; }\n                prev.next.store")],
 # M2: revert of the fix b8fae1d: the consumer position is read AFTER the prev.next store (stale prev / ABA)
 "M2_tail_read_after_store": [("            #[cfg(may_verif)]\n            crate::verif::point(\"tail.read\", self.tail.get() as usize, 0);\n            let tail = *self.tail.get();\n            (*prev).next.store(node, Ordering::Release);\n",
                               "            (*prev).next.store(node, Ordering::Release);\n            #[cfg(may_verif)]\n            crate::verif::point(\"tail.read\", self.tail.get() as usize, 0);\n            let tail = *self.tail.get();\n")],
 # M3: pop clears the link bit of the successor instead of the stub
 "M3_pop_clears_wrong_link": [("            (*next).prev = ptr::null_mut();\n            // move the tail to next\n            #[cfg(may_verif)]\n            crate::verif::point(\"tail.write\", self.tail.get() as usize, next as usize as u64);\n            *self.tail.get() = next;\n\n            assert!((*tail).value.is_none());",
                               "            (*next).prev = ptr::null_mut();\n            (*next).refs &= REF_COUNT_MASK;\n            // move the tail to next\n            #[cfg(may_verif)]\n            crate::verif::point(\"tail.write\", self.tail.get() as usize, next as usize as u64);\n            *self.tail.get() = next;\n\n            assert!((*tail).value.is_none());"),
                              ("            // clear the link bit\n            assert!((*tail).refs & REF_COUNT_MASK != 0);\n            (*tail).refs &= REF_COUNT_MASK;\n\n            // spin until tail next become non-null",
                               "            // clear the link bit\n            assert!((*tail).refs & REF_COUNT_MASK != 0);\n\n            // spin until tail next become non-null")],
 # M3b: remove() clears the link bit of the predecessor instead of the node
 "M3b_remove_clears_prev_link": [("                node.refs &= REF_COUNT_MASK;\n\n                // this is not the last node", "                prev.refs &= REF_COUNT_MASK;\n\n                // this is not the last node")],
 # M4: pop_if does not clear `prev` of the new stub
 "M4_popif_keeps_prev": [("            // clear the prev pointer indicate a new end point\n            (*next).prev = ptr::null_mut();\n", "            // clear the prev pointer indicate a new end point\n")],
 # M5: push compares the consumer position with its own node
 "M5_is_head_eq_node": [("let is_head = std::ptr::eq(tail, prev);", "let is_head = std::ptr::eq(tail, node);")],
}
orig = open(F).read()
res = {}
names = sys.argv[1:] or list(M)
for name in names:
    lock = open("/tmp/repo.lock", "a+")
    fcntl.flock(lock, fcntl.LOCK_EX)          # one mutant per exclusive lock (AGENT_GUIDE: /repo is shared)
    orig = open(F).read()
    t = orig
    for a, b in M[name]:
        assert t.count(a) == 1, (name, a[:40], t.count(a))
        t = t.replace(a, b)
    open(F, "w").write(t)
    try:
        p = subprocess.run(["./check", "C19"], cwd="/verif", stdout=subprocess.PIPE, stderr=subprocess.STDOUT, text=True, timeout=1500,
                           env=dict(os.environ, VERIF_SEED=os.environ.get("VERIF_SEED", "1")))
        out = p.stdout
    finally:
        subprocess.run(["git", "-C", "/repo", "checkout", "--", "may_queue/src/mpsc_list_v1.rs"])
    lines = [l for l in out.splitlines() if l.startswith(("VIOLATION", "OK", "KNOWN", "  "))]
    ev = json.load(open("/verif/evidence/C19.json"))["coverage"]
    print("=====", name, "rc=", p.returncode)
    fcntl.flock(lock, fcntl.LOCK_UN); lock.close()
    print("\n".join(lines[:12]))
    print("   oracle_failures=%s rejected=%s static_diffs=%s search_runs=%s" % (ev["oracle_failures"], ev["traces_rejected"], ev["static_diffs"], ev["search_runs"]))
    sys.stdout.flush()
subprocess.run(["git", "-C", "/repo", "status", "--short"])
