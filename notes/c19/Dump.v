(* design aid: canonical dump of a model state + boolean candidate invariant, extracted for the OCaml explorer *)
From Coq Require Import List Arith Bool Extraction ExtrOcamlBasic.
Import ListNotations.
Require Import MayV.Queue.ListV1Model.

Definition b2n (b : bool) := if b then 1 else 0.
Definition o2n (o : option nat) := match o with None => 0 | Some x => S x end.
Definition ppc2n q := match q with QIdle => 0 | Q0 => 1 | Q1 => 2 | Q2 => 3 | Q3 => 4 end.
Definition kpc2n k := match k with KIdle => 0 | KP0 b => 1 + b2n b | KP1 b => 3 + b2n b | KP2 => 5 | KK0 => 6 | KK1 => 7 | KE0 => 8 | KR1 => 9 | KR2 => 10 end.
Definition dnode (d : node) := [o2n (nprev d); o2n (nnext d); b2n (nval d); b2n (nlink d); refs d; b2n (freed d); stage d; b2n (inch d); gpred d; cons d; b2n (byrem d); b2n (ret d); b2n (hnd d); own d].
Definition dpst (s : st) (x : pst) := [ppc2n (qp x); qn x; qprev x; b2n (qempty x); b2n (Nat.eqb (qclk x) (kclock s)); b2n (qhead x)].
Definition dump (K : nat) (s : st) : list nat :=
  [nn s; head s; tail s; kpc2n (kp s); kn s; kx s; o2n (kres s); b2n (kbool s); lastpop s;
   b2n (bad_order s); b2n (bad_head s); b2n (bad_val s); b2n (bad_mem s)]
  ++ flat_map (fun n => dnode (nodes s n)) (seq 0 (nn s))
  ++ flat_map (fun p => dpst s (P s p)) (seq 0 K).

Definition active (x : pst) : bool := match qp x with Q1 | Q2 | Q3 => true | _ => false end.
Definition stage_of (q : ppc) : nat := match q with Q1 => 2 | Q2 | Q3 => 1 | _ => 0 end.
Definition oeq (o : option nat) (x : option nat) := Nat.eqb (o2n o) (o2n x).
Definition alln (s : st) (f : nat -> bool) := forallb f (seq 0 (nn s)).
Definition imp (a b : bool) := implb a b.

Definition inv_b (K : nat) (s : st) : bool :=
  let nd := nodes s in
  let t := tail s in
  (* G1 *) (1 <=? nn s) && (t <=? head s) && (head s <? nn s) && (lastpop s <=? t) &&
  (* G2 *) inch (nd t) && inch (nd (head s)) && negb (nval (nd t)) && oeq (nprev (nd t)) None &&
  (* G3 *) alln s (fun x => imp (inch (nd x)) ((t <=? x) && (x <=? head s))) &&
  (* GM *) monitors_ok s &&
  (* NI *) alln s (fun b => imp (inch (nd b) && negb (b =? t))
             (let g := gpred (nd b) in
              (g <? b) && inch (nd g) && alln s (fun x => imp (inch (nd x)) (negb ((g <? x) && (x <? b)))) &&
              imp (stage (nd b) =? 0) (oeq (nnext (nd g)) (Some b)) &&
              imp (stage (nd b) <=? 1) (oeq (nprev (nd b)) (Some g)) &&
              imp (stage (nd b) =? 2) (oeq (nprev (nd b)) None) &&
              nval (nd b) && nlink (nd b) && (cons (nd b) =? 0) && (stage (nd b) <=? 2))) &&
  (* N6 *) alln s (fun a => imp (inch (nd a)) (match nnext (nd a) with None => true | Some x =>
              inch (nd x) && (gpred (nd x) =? a) && (stage (nd x) =? 0) && negb (x =? t) end)) &&
  (* N7 *) alln s (fun n => imp (negb (inch (nd n))) (negb (nlink (nd n)) && imp (1 <=? n) (cons (nd n) =? 1))) &&
  (* N8 *) imp (1 <=? t) (cons (nd t) =? 1) && (cons (nd 0) =? 0) &&
  (* NR *) alln s (fun n => imp (ret (nd n)) ((stage (nd n) =? 0) && (1 <=? n))) &&
  (* PP *) forallb (fun p => let x := P s p in let n := qn x in let a := qprev x in imp (active x)
             ((a <? n) && (n <? nn s) && negb (ret (nd n)) && (stage (nd n) =? stage_of (qp x)) &&
              imp (inch (nd n)) (gpred (nd n) <=? a) && imp (negb (inch (nd n))) (n <? t) && imp (qempty x) (a <=? t) &&
              imp (1 <=? stage (nd n)) (oeq (nnext (nd a)) None && (gpred (nd n) =? a) && inch (nd a) && inch (nd n)) &&
              (* R5' *) (own (nd n) =? p) &&
              (* R6 *) (qclk x <=? kclock s) && imp (qclk x =? kclock s) (Bool.eqb (qempty x) (a =? t)))) (seq 0 K) &&
  (* PU *) forallb (fun p => forallb (fun p' => imp (negb (p =? p') && active (P s p) && active (P s p')) (negb (qn (P s p) =? qn (P s p')))) (seq 0 K)) (seq 0 K) &&
  (* K2 *) imp (kpc2n (kp s) =? 5) (inch (nd (kn s)) && (gpred (nd (kn s)) =? t) && (stage (nd (kn s)) =? 0) && negb (kn s =? t)) &&
  (* K3-5,R4 *) imp ((kpc2n (kp s) =? 9) || (kpc2n (kp s) =? 10)) (ret (nd (kn s)) && hnd (nd (kn s)) && nlink (nd (kn s)) && negb (oeq (nprev (nd (kn s))) None)) &&
  imp (kpc2n (kp s) =? 10) (oeq (nnext (nd (kn s))) (Some (kx s))) &&
  (* K6 *) imp ((kpc2n (kp s) =? 3) || (kpc2n (kp s) =? 4) || (kpc2n (kp s) =? 7)) (negb (head s =? t)) &&
  (* GH *) oeq (nnext (nd (head s))) None &&
  (* R1 *) alln s (fun n => (refs (nd n) =? b2n (inch (nd n)) + b2n (hnd (nd n))) && Bool.eqb (freed (nd n)) (negb (inch (nd n)) && negb (hnd (nd n)))) &&
  (* R3 *) negb (hnd (nd 0)) && alln s (fun n => imp ((1 <=? n) && negb (ret (nd n))) (hnd (nd n))) &&
  (* R5 *) alln s (fun n => imp (1 <=? stage (nd n)) (let x := P s (own (nd n)) in (qn x =? n) && ((ppc2n (qp x) =? 2) || (ppc2n (qp x) =? 3) || (ppc2n (qp x) =? 4)))).

Definition monitors := monitors_ok.
Extraction "model.ml" init step dump inv_b monitors.
