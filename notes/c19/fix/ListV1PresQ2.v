(* C19 - core invariant: Q2, the producer reads the consumer position (is_head := ptr::eq(tail, prev)) before it
   links its node; the claims about the head report, (a), (c) and (d) of C19.iv, are discharged here. *)
From Coq Require Import List Arith Bool Lia.
Import ListNotations.
Require Import MayV.Queue.ListV1Model MayV.Queue.ListV1Inv MayV.Queue.ListV1Frame.

Lemma inv_q2 s p s' : Inv s -> qp (P s p) = Q2 -> step s (PStep p) = Some s' -> Inv s'.
Proof.
  intros Hi Eq H. unfold step in H. rewrite Eq in H. inv_some.
  pfacts Hi p. cbn in Hp4. destruct (Hp8 ltac:(lia)) as (Hn1 & Hn2 & Hn3 & Hn4).
  set (n := qn (P s p)) in *. set (a := qprev (P s p)) in *.
  destruct (G1 _ Hi) as (g1 & g2 & g3 & g4). destruct (GM _ Hi) as (m1 & m2 & m3).
  assert (Hat : tail s <= a) by (destruct (G3 _ Hi a Hn3); lia).
  assert (Hnt : n <> tail s) by lia.
  destruct (NI _ Hi n Hn4 Hnt) as (_&_&_&_&_&_&_&_&c9&_).
  (* the claims about the head report: the own node is an unconsumed chain member directly behind prev *)
  assert (Hclaims : implb (qempty (P s p) && (cons (nd s n) =? 0)) (tail s =? a) &&
                    implb (tail s =? a) ((cons (nd s n) =? 0) && inch (nd s n) && (gpred (nd s n) =? tail s)) &&
                    implb (qclk (P s p) =? kclock s) (Bool.eqb (tail s =? a) (qempty (P s p))) = true).
  { rewrite c9, Hn4, Hn2. cbn. apply andb_true_intro. split; [apply andb_true_intro; split|].
    - destruct (qempty (P s p)) eqn:Ee; cbn; auto. apply Nat.eqb_eq. specialize (Hp7 eq_refl). lia.
    - destruct (tail s =? a) eqn:Et; cbn; auto. apply Nat.eqb_eq in Et. apply Nat.eqb_eq. lia.
    - destruct (qclk (P s p) =? kclock s) eqn:Ec; cbn; auto. apply Nat.eqb_eq in Ec. rewrite (Hp10 Ec).
      rewrite (Nat.eqb_sym (tail s) a). apply eqb_reflx. }
  eapply frame_gen; [exact Hi | intro x; cbn; repeat split; auto | intros; reflexivity | ..]; try reflexivity; cbn; try lia.
  - fold n a. rewrite Hclaims. cbn. rewrite m2. reflexivity.
  - intros q. destruct (Nat.eq_dec q p) as [->|nq].
    + rewrite upd_eq. cbn. intros _. unfold active. rewrite Eq. repeat split; reflexivity.
    + rewrite upd_neq by assumption. intros Ha. repeat split; auto.
  - apply (K2 _ Hi).
  - intros Hk. split; [apply (K3 _ Hi Hk) | apply (K4 _ Hi Hk)].
  - apply (K5 _ Hi).
  - apply (K6 _ Hi).
Qed.
