(* C19 - core invariant: Q3, the producer links its node behind its predecessor (prev.next.store(node)) and
   returns its handle. *)
From Coq Require Import List Arith Bool Lia.
Import ListNotations.
Require Import MayV.Queue.ListV1Model MayV.Queue.ListV1Inv.

Lemma inv_q3 s p s' : Inv s -> qp (P s p) = Q3 -> step s (PStep p) = Some s' -> Inv s'.
Proof.
  intros Hi Eq H. unfold step in H. rewrite Eq in H. inv_some.
  pfacts Hi p. cbn in Hp4. destruct (Hp8 ltac:(lia)) as (Hn1 & Hn2 & Hn3 & Hn4).
  set (n := qn (P s p)) in *. set (a := qprev (P s p)) in *.
  destruct (G1 _ Hi) as (g1 & g2 & g3 & g4). destruct (G2 _ Hi) as (t1 & t2 & t3 & t4).
  assert (Hat : tail s <= a) by (destruct (G3 _ Hi a Hn3); lia).
  assert (Hnt : n <> tail s) by lia. assert (Han : a <> n) by lia.
  unfold modn, deref; cbn.
  set (f1 := upd (nodes s) a _). set (f := upd f1 n _).
  assert (Fa : nnext (f a) = Some n /\ nprev (f a) = nprev (nd s a) /\ nval (f a) = nval (nd s a) /\ nlink (f a) = nlink (nd s a) /\
               stage (f a) = stage (nd s a) /\ inch (f a) = inch (nd s a) /\ gpred (f a) = gpred (nd s a) /\ cons (f a) = cons (nd s a) /\ ret (f a) = ret (nd s a)).
  { unfold f. rewrite upd_neq by assumption. unfold f1. rewrite upd_eq. cbn. tauto. }
  assert (Fnn : stage (f n) = 0 /\ nnext (f n) = nnext (nd s n) /\ nprev (f n) = nprev (nd s n) /\ nval (f n) = nval (nd s n) /\ nlink (f n) = nlink (nd s n) /\
                inch (f n) = inch (nd s n) /\ gpred (f n) = gpred (nd s n) /\ cons (f n) = cons (nd s n) /\ ret (f n) = true).
  { unfold f. rewrite upd_eq. cbn. unfold f1. rewrite upd_neq by (apply not_eq_sym; assumption). tauto. }
  assert (Fo : forall x, x <> a -> x <> n -> f x = nd s x).
  { intros x H1 H2. unfold f. rewrite upd_neq by assumption. unfold f1. rewrite upd_neq by assumption. reflexivity. }
  assert (Fi : forall x, inch (f x) = inch (nd s x) /\ gpred (f x) = gpred (nd s x) /\ nprev (f x) = nprev (nd s x) /\
                         nval (f x) = nval (nd s x) /\ nlink (f x) = nlink (nd s x) /\ cons (f x) = cons (nd s x) /\
                         (x <> n -> ret (f x) = ret (nd s x)) /\ (ret (nd s x) = true -> ret (f x) = true) /\
                         (x <> n -> stage (f x) = stage (nd s x)) /\ (x <> a -> nnext (f x) = nnext (nd s x))).
  { intro x. destruct (Nat.eq_dec x a) as [->|na]; [|destruct (Nat.eq_dec x n) as [->|nn0]].
    - destruct Fa as (a1&a2&a3&a4&a5&a6&a7&a8&a9). repeat split; auto; try congruence.
    - destruct Fnn as (a1&a2&a3&a4&a5&a6&a7&a8&a9). repeat split; auto; try congruence.
    - rewrite (Fo x na nn0). repeat split; auto. }
  constructor; unfold ninv, pinv, in_remove, spinning; cbv zeta; cbn; fold f1; fold f.
  - auto.
  - destruct (Fi (tail s)) as (i1&_&i3&i4&_). destruct (Fi (head s)) as (j1&_). rewrite i1, j1, i3, i4. auto.
  - intro x. destruct (Fi x) as (i1&_). rewrite i1. apply (G3 _ Hi).
  - intros x Hx. rewrite Fo by lia. apply (G4 _ Hi x Hx).
  - apply (GM _ Hi).
  - intros b. destruct (Fi b) as (i1&i2&i3&i4&i5&i6&i7&i7'&i8&i9). rewrite i1, i2, i3, i4, i5, i6. intros Hb Hbt.
    destruct (Fi (gpred (nd s b))) as (k1&_). rewrite k1.
    destruct (NI _ Hi b Hb Hbt) as (a1&a2&a3&a4&a5&a6&a7&a8&a9&a10).
    assert (A3 : forall x, inch (f x) = true -> ~ (gpred (nd s b) < x /\ x < b)).
    { intros x Hx. destruct (Fi x) as (x1&_). rewrite x1 in Hx. apply (a3 x Hx). }
    destruct (Nat.eq_dec b n) as [->|ne].
    + destruct Fnn as (s0&_). rewrite s0. repeat split; auto; try lia.
      all: try (intros _; rewrite Hn2; apply Fa).
      all: try (intros _; apply a5; lia).
      all: try (intros Hc; lia).
    + rewrite (i8 ne). repeat split; auto.
      intros Hs. destruct (Nat.eq_dec (gpred (nd s b)) a) as [e|nea].
      * exfalso. rewrite e in a4. rewrite Hn1 in a4. specialize (a4 Hs). discriminate.
      * destruct (Fi (gpred (nd s b))) as (_&_&_&_&_&_&_&_&_&k9). rewrite (k9 nea). apply a4; assumption.
  - intros a0 x Ha0 Hx. destruct (Fi a0) as (i1&_&_&_&_&_&_&_&_&i9). rewrite i1 in Ha0.
    destruct (Nat.eq_dec a0 a) as [->|nea].
    + destruct Fa as (e1&_). rewrite e1 in Hx. injection Hx as <-.
      destruct Fnn as (s0&_&_&_&_&s5&s6&_). rewrite s0, s5, s6. repeat split; auto.
    + rewrite (i9 nea) in Hx. destruct (N6 _ Hi a0 x Ha0 Hx) as (b1&b2&b3&b4).
      destruct (Fi x) as (x1&x2&_&_&_&_&_&_&x8&_). rewrite x1, x2. repeat split; auto.
      destruct (Nat.eq_dec x n) as [->|nx]; [apply Fnn | rewrite (x8 nx); assumption].
  - intros m Hm. destruct (Fi m) as (i1&_&_&_&i5&i6&_). rewrite i1, i5, i6. apply (N7 _ Hi m Hm).
  - destruct (Fi (tail s)) as (_&_&_&_&_&i6&_). destruct (Fi 0) as (_&_&_&_&_&j6&_). rewrite i6, j6. apply (N8 _ Hi).
  - intros m. destruct (Fi m) as (_&_&_&_&_&_&i7&_&i8&_). intros Hr.
    destruct (Nat.eq_dec m n) as [->|ne]; [destruct Fnn as (s0&_); rewrite s0; repeat split; auto; lia|].
    rewrite (i7 ne) in Hr. rewrite (i8 ne). apply (NR _ Hi m Hr).
  - intros q. destruct (Nat.eq_dec q p) as [->|nq].
    + rewrite upd_eq; cbn. discriminate.
    + rewrite upd_neq by assumption. intros Ha. pose proof (PP _ Hi q Ha) as Hq. cbv zeta in Hq.
      assert (Hqn : qn (P s q) <> n) by (apply (PU _ Hi q p nq Ha); unfold active; rewrite Eq; reflexivity).
      destruct Hq as (q1&q2&q3&q4&q5&q6&q7&q8&q9&q10).
      destruct (Fi (qn (P s q))) as (j1&j2&_&_&_&_&j7&_&j8&_). destruct (Fi (qprev (P s q))) as (i1&_&_&_&_&_&_&_&_&i9).
      rewrite j1, j2, (j7 Hqn), (j8 Hqn), i1. repeat split; auto.
      all: match goal with Hs : stage _ >= 1 |- _ => destruct (q8 Hs) as (u1&u2&u3&u4) end; auto.
      destruct (Nat.eq_dec (qprev (P s q)) a) as [e|nea]; [|rewrite (i9 nea); assumption].
      (* two pending producers behind the same predecessor: impossible by adjacency *)
      exfalso. rewrite e in u2.
      destruct (Nat.lt_trichotomy n (qn (P s q))) as [L|[E|L]]; [|congruence|].
      * assert (Hq_t : qn (P s q) <> tail s) by lia.
        destruct (NI _ Hi _ u4 Hq_t) as (_&_&c3&_). apply (c3 n Hn4). rewrite u2. lia.
      * destruct (NI _ Hi n Hn4 Hnt) as (_&_&c3&_). apply (c3 _ u4). rewrite Hn2. lia.
  - intros q q' Hne. destruct (Nat.eq_dec q p) as [->|nq]; destruct (Nat.eq_dec q' p) as [->|nq'];
      rewrite ?upd_eq, ?upd_neq by assumption; cbn; try congruence; try discriminate.
    apply (PU _ Hi); assumption.
  - intros Hk. destruct (K2 _ Hi Hk) as (c1&c2&c3&c4). destruct (Fi (kn s)) as (i1&i2&_&_&_&_&_&_&i8&_). rewrite i1, i2. repeat split; auto.
    destruct (Nat.eq_dec (kn s) n) as [e|ne]; [rewrite e; apply Fnn | rewrite (i8 ne); assumption].
  - intros Hk. destruct (Fi (kn s)) as (_&_&_&_&_&_&_&i7&_). apply i7. apply (K3 _ Hi Hk).
  - intros Hk. destruct (K4 _ Hi Hk) as (c1&c2). destruct (Fi (kn s)) as (_&_&i3&_&i5&_). rewrite i3, i5. auto.
  - intros Hk. destruct (Fi (kn s)) as (_&_&_&_&_&_&_&_&_&i9). rewrite i9; [apply (K5 _ Hi Hk)|].
    intro E. pose proof (K5 _ Hi Hk) as k5. rewrite E in k5. congruence.
  - apply (K6 _ Hi).
  - destruct (Fi (head s)) as (_&_&_&_&_&_&_&_&_&i9). rewrite i9; [apply (GH _ Hi)|].
    intro E. destruct (G3 _ Hi n Hn4) as [_ L]. lia.
Qed.
