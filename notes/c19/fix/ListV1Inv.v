(* C19 - the inductive invariant of the mpsc_list_v1 model (list-free: the chain is described pointwise
   by the ghost fields [inch] / [gpred]), in two layers:
     Inv   consumption core: chain shape, agreement of the memory links with the ghost chain, consumed-once
           counters, producer and consumer control points, monitors bad_order / bad_head / bad_val;
     Inv2  reference counts, handles, freeing (monitor bad_mem) and the owner of a pending link. *)
From Coq Require Import List Arith Bool Lia.
Import ListNotations.
Require Import MayV.Queue.ListV1Model.

Notation nd s n := (nodes s n).
Arguments upd : simpl never.

Definition active (x : pst) : bool := match qp x with Q1 | Q2 | Q3 => true | _ => false end.
Definition stage_of (q : ppc) : nat := match q with Q1 => 2 | Q2 | Q3 => 1 | _ => 0 end.
Definition in_remove (k : kpc) : Prop := k = KR1 \/ k = KR2.
Definition spinning (k : kpc) : Prop := k = KP1 false \/ k = KP1 true \/ k = KK1.

(* a chain member other than the stub: its predecessor, adjacency, memory links, value still there *)
Definition ninv (s : st) (b : nat) : Prop :=
  inch (nd s b) = true -> b <> tail s ->
    gpred (nd s b) < b /\ inch (nd s (gpred (nd s b))) = true /\
    (forall x, inch (nd s x) = true -> ~ (gpred (nd s b) < x /\ x < b)) /\
    (stage (nd s b) = 0 -> nnext (nd s (gpred (nd s b))) = Some b) /\
    (stage (nd s b) <= 1 -> nprev (nd s b) = Some (gpred (nd s b))) /\
    (stage (nd s b) = 2 -> nprev (nd s b) = None) /\
    nval (nd s b) = true /\ nlink (nd s b) = true /\ cons (nd s b) = 0 /\ stage (nd s b) <= 2.

(* a producer between its swap and its return *)
Definition pinv (s : st) (p : nat) : Prop :=
  let x := P s p in let n := qn x in let a := qprev x in
  active x = true ->
    a < n /\ n < nn s /\ ret (nd s n) = false /\ stage (nd s n) = stage_of (qp x) /\
    (inch (nd s n) = true -> gpred (nd s n) <= a) /\
    (inch (nd s n) = false -> n < tail s) /\
    (qempty x = true -> a <= tail s) /\
    (stage (nd s n) >= 1 -> nnext (nd s a) = None /\ gpred (nd s n) = a /\ inch (nd s a) = true /\ inch (nd s n) = true) /\
    qclk x <= kclock s /\
    (qclk x = kclock s -> qempty x = Nat.eqb a (tail s)).

Record Inv (s : st) : Prop := {
  G1 : 1 <= nn s /\ tail s <= head s /\ head s < nn s /\ lastpop s <= tail s;
  G2 : inch (nd s (tail s)) = true /\ inch (nd s (head s)) = true /\ nval (nd s (tail s)) = false /\ nprev (nd s (tail s)) = None;
  G3 : forall x, inch (nd s x) = true -> tail s <= x /\ x <= head s;
  G4 : forall x, nn s <= x -> nd s x = unalloc;
  GM : bad_order s = false /\ bad_head s = false /\ bad_val s = false;
  NI : forall b, ninv s b;
  N6 : forall a x, inch (nd s a) = true -> nnext (nd s a) = Some x ->
         inch (nd s x) = true /\ gpred (nd s x) = a /\ stage (nd s x) = 0 /\ x <> tail s;
  N7 : forall n, n < nn s -> inch (nd s n) = false -> nlink (nd s n) = false /\ (1 <= n -> cons (nd s n) = 1);
  N8 : (1 <= tail s -> cons (nd s (tail s)) = 1) /\ cons (nd s 0) = 0;
  NR : forall n, ret (nd s n) = true -> stage (nd s n) = 0 /\ n < nn s /\ 1 <= n;
  PP : forall p, pinv s p;
  PU : forall p p', p <> p' -> active (P s p) = true -> active (P s p') = true -> qn (P s p) <> qn (P s p');
  K2 : kp s = KP2 -> inch (nd s (kn s)) = true /\ gpred (nd s (kn s)) = tail s /\ stage (nd s (kn s)) = 0 /\ kn s <> tail s;
  K3 : in_remove (kp s) -> ret (nd s (kn s)) = true;
  K4 : in_remove (kp s) -> nlink (nd s (kn s)) = true /\ nprev (nd s (kn s)) <> None;
  K5 : kp s = KR2 -> nnext (nd s (kn s)) = Some (kx s);
  K6 : spinning (kp s) -> head s <> tail s;
  GH : nnext (nd s (head s)) = None
}.

Definition b2n (b : bool) : nat := if b then 1 else 0.

Record Inv2 (s : st) : Prop := {
  R1 : forall n, n < nn s -> refs (nd s n) = b2n (inch (nd s n)) + b2n (hnd (nd s n)) /\
                             freed (nd s n) = negb (inch (nd s n)) && negb (hnd (nd s n));
  R3 : hnd (nd s 0) = false /\ forall n, 1 <= n -> n < nn s -> ret (nd s n) = false -> hnd (nd s n) = true;
  R4 : in_remove (kp s) -> hnd (nd s (kn s)) = true;
  R5 : forall n, n < nn s -> 1 <= stage (nd s n) ->
         qn (P s (own (nd s n))) = n /\ (qp (P s (own (nd s n))) = Q1 \/ qp (P s (own (nd s n))) = Q2 \/ qp (P s (own (nd s n))) = Q3);
  RM : bad_mem s = false
}.

Lemma upd_eq {X} (f : nat -> X) i v : upd f i v i = v.
Proof. unfold upd. now rewrite Nat.eqb_refl. Qed.
Lemma upd_neq {X} (f : nat -> X) i j v : j <> i -> upd f i v j = f j.
Proof. unfold upd. intros H. destruct (Nat.eqb_spec j i); congruence. Qed.

Ltac inv_some := match goal with H : Some _ = Some _ |- _ => inversion H; subst; clear H end.
Ltac bools :=
  repeat match goal with
  | H : _ && _ = true |- _ => apply andb_prop in H; destruct H
  | H : _ || _ = false |- _ => apply orb_false_elim in H; destruct H
  | H : negb _ = true |- _ => apply negb_true_iff in H
  | H : negb _ = false |- _ => apply negb_false_iff in H
  | H : (_ =? _) = true |- _ => apply Nat.eqb_eq in H
  | H : (_ =? _) = false |- _ => apply Nat.eqb_neq in H
  | H : (_ <=? _) = true |- _ => apply Nat.leb_le in H
  | H : (_ <=? _) = false |- _ => apply Nat.leb_gt in H
  end.
Ltac upd_tac :=
  repeat match goal with
  | |- context [upd ?f ?i ?v ?j] =>
      first [ rewrite (upd_eq f i v) | rewrite (upd_neq f i j v) by (try congruence; try lia)
            | let e := fresh "e" in let ne := fresh "ne" in
              destruct (Nat.eq_dec j i) as [e|ne];
              [ rewrite e; rewrite upd_eq | rewrite (upd_neq f i j v ne) ] ]
  end.

(* the facts of a producer at a known control point *)
Ltac pfacts Hi p :=
  let Hp := fresh "Hp" in
  pose proof (PP _ Hi p) as Hp; unfold pinv in Hp; cbv zeta in Hp;
  match goal with E : qp (P _ p) = _ |- _ => unfold active in Hp; rewrite E in Hp; cbn in Hp; specialize (Hp eq_refl) end;
  destruct Hp as (Hp1 & Hp2 & Hp3 & Hp4 & Hp5 & Hp6 & Hp7 & Hp8 & Hp9 & Hp10).

Lemma inv_init : Inv init.
Proof.
  constructor; unfold ninv, pinv, init, in_remove, spinning; cbn; intros; try discriminate; try tauto; try lia; auto.
  all: try (repeat split; lia).
  all: try (destruct (Nat.eqb_spec x 0); cbn in *; try lia; try discriminate; try reflexivity).
  all: try (destruct (Nat.eqb_spec b 0); cbn in *; try lia; try discriminate).
  all: try (destruct (Nat.eqb_spec a 0); cbn in *; try discriminate).
  all: try (destruct (Nat.eqb_spec n 0); cbn in *; try lia; try discriminate).
  all: try (destruct H; discriminate).
  all: try (destruct H as [H|[H|H]]; discriminate).
Qed.

Lemma inv2_init : Inv2 init.
Proof.
  constructor; unfold init, in_remove; cbn; intros; try discriminate; try tauto; auto.
  all: try (destruct (Nat.eqb_spec n 0); cbn in *; try lia; try discriminate; auto).
  all: try (split; [reflexivity|intros; lia]).
  all: try (destruct H; discriminate).
Qed.
