(* C19 - core invariant: KR2, the commit of Entry::remove (prev.next.store(next)): a middle entry is
   unlinked and hands out its value. *)
From Coq Require Import List Arith Bool Lia.
Import ListNotations.
Require Import MayV.Queue.ListV1Model MayV.Queue.ListV1Inv MayV.Queue.ListV1PresKP2.

Lemma inv_kr2 s yes s' : Inv s -> kp s = KR2 -> step s (KStep yes) = Some s' -> Inv s'.
Proof.
  intros Hi Ek H. unfold step in H. rewrite Ek in H.
  destruct (nprev (nd s (kn s))) as [pr|] eqn:Epv; [|discriminate]. inv_some.
  pose proof (K5 _ Hi Ek) as Enx. remember (kx s) as x eqn:Ex.
  pose proof (K3 _ Hi (or_intror Ek)) as kr. destruct (K4 _ Hi (or_intror Ek)) as (kl & _).
  destruct (NR _ Hi _ kr) as (r1 & r2 & r3).
  remember (kn s) as n eqn:En.
  destruct (G1 _ Hi) as (g1 & g2 & g3 & g4). destruct (G2 _ Hi) as (t1 & t2 & t3 & t4).
  destruct (GM _ Hi) as (m1 & m2 & m3). destruct (N8 _ Hi) as (n8a & n8b).
  assert (Hin : inch (nd s n) = true).
  { destruct (inch (nd s n)) eqn:E; auto. destruct (N7 _ Hi n r2 E). congruence. }
  assert (Hnt : n <> tail s) by (intro E; rewrite E in Epv; congruence).
  destruct (NI _ Hi n Hin Hnt) as (n1&n2&n3&n4&n5&n6&n7&n8&n9&n10).
  assert (Hpr : pr = gpred (nd s n)) by (specialize (n5 ltac:(lia)); congruence). subst pr.
  remember (gpred (nd s n)) as pr eqn:Epr.
  destruct (N6 _ Hi n x Hin Enx) as (x1 & x2 & x3 & x4).
  destruct (NI _ Hi x x1 x4) as (y1&y2&y3&y4&y5&y6&y7&y8&y9&y10). rewrite x2 in *.
  destruct (G3 _ Hi x x1) as (gx1 & gx2). destruct (G3 _ Hi pr n2) as (gp1 & gp2).
  unfold modn, deref; cbn. rewrite <- ?En, <- ?Ex.
  set (f1 := upd (nodes s) n _). set (f2 := upd f1 x _). set (f := upd f2 pr _).
  assert (Fo : forall y, y <> n -> y <> x -> y <> pr -> f y = nd s y).
  { intros y A B C. unfold f, f2, f1. rewrite !upd_neq by assumption. reflexivity. }
  assert (Fnn : inch (f n) = false /\ nlink (f n) = false /\ cons (f n) = 1 /\ ret (f n) = ret (nd s n) /\ stage (f n) = stage (nd s n) /\ nnext (f n) = nnext (nd s n)).
  { unfold f, f2. rewrite !upd_neq by lia. unfold f1. rewrite upd_eq. cbn. rewrite n9. repeat split; auto. }
  assert (Fx : nprev (f x) = Some pr /\ gpred (f x) = pr /\ nnext (f x) = nnext (nd s x) /\ nval (f x) = nval (nd s x) /\ nlink (f x) = nlink (nd s x) /\
               stage (f x) = stage (nd s x) /\ inch (f x) = inch (nd s x) /\ cons (f x) = cons (nd s x) /\ ret (f x) = ret (nd s x)).
  { unfold f. rewrite upd_neq by lia. unfold f2. rewrite upd_eq. cbn. unfold f1. rewrite upd_neq by lia. repeat split; auto. }
  assert (Fp : nnext (f pr) = Some x /\ nprev (f pr) = nprev (nd s pr) /\ gpred (f pr) = gpred (nd s pr) /\ nval (f pr) = nval (nd s pr) /\ nlink (f pr) = nlink (nd s pr) /\
               stage (f pr) = stage (nd s pr) /\ inch (f pr) = inch (nd s pr) /\ cons (f pr) = cons (nd s pr) /\ ret (f pr) = ret (nd s pr)).
  { unfold f. rewrite upd_eq. cbn. unfold f2. rewrite upd_neq by lia. unfold f1. rewrite upd_neq by lia. repeat split; auto. }
  assert (Fall : forall y, ret (f y) = ret (nd s y) /\ stage (f y) = stage (nd s y) /\ (y <> n -> inch (f y) = inch (nd s y) /\ nval (f y) = nval (nd s y) /\ nlink (f y) = nlink (nd s y) /\ cons (f y) = cons (nd s y)) /\
                           (y <> pr -> nnext (f y) = nnext (nd s y)) /\ (y <> x -> gpred (f y) = gpred (nd s y) /\ nprev (f y) = nprev (nd s y))).
  { intro y. destruct (Nat.eq_dec y n) as [->|A]; [|destruct (Nat.eq_dec y x) as [->|B]; [|destruct (Nat.eq_dec y pr) as [->|C]]].
    - destruct Fnn as (a1&a2&a3&a4&a5&a6). repeat split; auto; try congruence.
      all: unfold f, f2; rewrite !upd_neq by lia; unfold f1; rewrite upd_eq; cbn; congruence.
    - destruct Fx as (a1&a2&a3&a4&a5&a6&a7&a8&a9). repeat split; auto; congruence.
    - destruct Fp as (a1&a2&a3&a4&a5&a6&a7&a8&a9). repeat split; auto; congruence.
    - rewrite (Fo y A B C). repeat split; auto. }
  assert (Fin : forall y, inch (f y) = true -> inch (nd s y) = true /\ y <> n).
  { intros y Hy. destruct (Nat.eq_dec y n) as [->|A]; [destruct Fnn; congruence|]. destruct (Fall y) as (_&_&i3&_). destruct (i3 A) as (i&_). rewrite i in Hy. auto. }
  assert (Fin2 : forall y, inch (nd s y) = true -> y <> n -> inch (f y) = true).
  { intros y Hy A. destruct (Fall y) as (_&_&i3&_). destruct (i3 A) as (i&_). rewrite i. assumption. }
  pose proof (pred_unique s Hi) as PUq.
  constructor; unfold ninv, pinv, in_remove, spinning; cbv zeta; cbn; fold f1; fold f2; fold f.
  - auto.
  - destruct (Fall (tail s)) as (_&_&i3&_&i5). destruct (i3 (not_eq_sym Hnt)) as (j1&j2&_). destruct (i5 (not_eq_sym x4)) as (_&j4).
    rewrite j1, j2, j4. repeat split; auto. apply Fin2; [assumption | lia].
  - intros y Hy. destruct (Fin y Hy) as (h1&_). apply (G3 _ Hi y h1).
  - intros y Hy. rewrite Fo by lia. apply (G4 _ Hi y Hy).
  - rewrite m3, n7. auto.
  - intros b Hb Hbt. destruct (Fin b Hb) as (h1&h2).
    destruct (NI _ Hi b h1 Hbt) as (b1&b2&b3&b4&b5&b6&b7&b8&b9&b10).
    destruct (Nat.eq_dec b x) as [->|nbx].
    + destruct Fx as (a1&a2&a3&a4&a5&a6&a7&a8&a9). destruct Fp as (p1&_). rewrite a1, a2, a4, a5, a6, a8, p1.
      repeat split; auto; try lia; try congruence.
      all: try (apply Fin2; [assumption | lia]).
      all: try (intros y Hy [L1 L2]; destruct (Fin y Hy) as (z1&z2);
                destruct (Nat.lt_trichotomy y n) as [L|[L|L]]; [apply (n3 y z1); lia | congruence | apply (y3 y z1); lia]).
    + assert (Hg1 : gpred (nd s b) <> n) by (intro E; apply nbx; apply (PUq b x); auto; congruence).
      assert (Hg2 : gpred (nd s b) <> pr) by (intro E; apply h2; apply (PUq b n); auto; congruence).
      destruct (Fall b) as (_&c2&c3&_&c5). destruct (c3 h2) as (_&d2&d3&d4). destruct (c5 nbx) as (d5&d6).
      destruct (Fall (gpred (nd s b))) as (_&_&_&e4&_).
      rewrite d5, d6, c2, d2, d3, d4, (e4 Hg2). repeat split; auto.
      all: try (apply Fin2; assumption).
      all: try (intros y Hy; destruct (Fin y Hy) as (z1&_); apply (b3 y z1)).
  - intros a0 y Ha Hy. destruct (Fin a0 Ha) as (h1&h2).
    destruct (Nat.eq_dec a0 pr) as [->|nap].
    + destruct Fp as (p1&_). rewrite p1 in Hy. injection Hy as <-.
      destruct Fx as (a1&a2&a3&a4&a5&a6&a7&a8&a9). rewrite a2, a6, a7. auto.
    + destruct (Fall a0) as (_&_&_&c4&_). rewrite (c4 nap) in Hy.
      destruct (N6 _ Hi a0 y h1 Hy) as (c1&c2&c3&c5).
      assert (y <> n) by (intro E; subst y; congruence).
      assert (y <> x) by (intro E; subst y; congruence).
      destruct (Fall y) as (_&e2&_&_&e5). destruct (e5 H0) as (e6&_). rewrite e2, e6. repeat split; auto.
  - intros m Hm Him. destruct (Nat.eq_dec m n) as [->|A].
    + destruct Fnn as (_&a2&a3&_). rewrite a2, a3. auto.
    + destruct (Fall m) as (_&_&c3&_). destruct (c3 A) as (d1&_&d3&d4). rewrite d1 in Him. rewrite d3, d4. apply (N7 _ Hi m Hm Him).
  - destruct (Fall (tail s)) as (_&_&c3&_). destruct (c3 (not_eq_sym Hnt)) as (_&_&_&d4).
    destruct (Fall 0) as (_&_&e3&_). destruct (e3 ltac:(lia)) as (_&_&_&e4). rewrite d4, e4. auto.
  - intros m Hr. destruct (Fall m) as (c1&c2&_). rewrite c1 in Hr. rewrite c2. apply (NR _ Hi m Hr).
  - intros q Ha. pose proof (PP _ Hi q Ha) as Hq. cbv zeta in Hq. destruct Hq as (q1&q2&q3&q4&q5&q6&q7&q8&q9&q10).
    assert (Hqn : qn (P s q) <> n) by (intro E; rewrite E in q3; congruence).
    destruct (Fall (qn (P s q))) as (c1&c2&c3&_&c5). destruct (c3 Hqn) as (d1&_). rewrite c1, c2, d1.
    repeat split; auto.
    + intros Hy. destruct (Nat.eq_dec (qn (P s q)) x) as [e|ne].
      * specialize (q5 Hy). rewrite e in *. destruct Fx as (_&a2&_). rewrite a2. rewrite x2 in q5. lia.
      * destruct (c5 ne) as (d5&_). rewrite d5. apply q5; assumption.
    + destruct (q8 H) as (u1&u2&u3&u4).
      assert (qprev (P s q) <> pr) by (intro E; apply Hqn; apply (PUq _ n); auto; [intro E2; destruct (G3 _ Hi _ u3); lia | congruence]).
      destruct (Fall (qprev (P s q))) as (_&_&_&e4&_). rewrite (e4 H0). assumption.
    + destruct (q8 H) as (u1&u2&u3&u4).
      assert (qn (P s q) <> x) by (intro E; rewrite E in H; lia).
      destruct (c5 H0) as (d5&_). rewrite d5. assumption.
    + destruct (q8 H) as (u1&u2&u3&u4). apply Fin2; auto.
      intro E. (* a pending producer directly behind the removed entry would share x's predecessor *)
      assert (qn (P s q) = x).
      { apply (PUq _ x); auto; [intro E2; destruct (G3 _ Hi _ u3); lia | congruence]. }
      rewrite H0 in H. lia.
    + destruct (q8 H) as (u1&u2&u3&u4). assumption.
    + intros Hc. lia.
  - apply (PU _ Hi).
  - discriminate.
  - intros [E|E]; discriminate.
  - intros [E|E]; discriminate.
  - discriminate.
  - intros [E|[E|E]]; discriminate.
  - destruct (Fall (head s)) as (_&_&_&c4&_). rewrite c4 by lia. apply (GH _ Hi).
Qed.
