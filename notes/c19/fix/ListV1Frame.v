(* C19 - preservation of the core invariant by all transitions that leave the chain alone:
   calls, loads, spins, the early returns of remove(), Entry::drop, is_link, and pop()'s clearing of the
   stub's link bit. *)
From Coq Require Import List Arith Bool Lia.
Import ListNotations.
Require Import MayV.Queue.ListV1Model MayV.Queue.ListV1Inv.

(* the fields the core invariant speaks about *)
Definition ceq (d' d : node) : Prop :=
  nprev d' = nprev d /\ nnext d' = nnext d /\ nval d' = nval d /\ stage d' = stage d /\
  inch d' = inch d /\ gpred d' = gpred d /\ cons d' = cons d /\ ret d' = ret d.

Lemma frame_gen s s' :
  Inv s ->
  (forall x, ceq (nd s' x) (nd s x) /\ (x <> tail s -> nlink (nd s' x) = nlink (nd s x)) /\
             (nlink (nd s' x) = true -> nlink (nd s x) = true)) ->
  (forall x, nn s <= x -> nd s' x = nd s x) ->
  nn s' = nn s -> head s' = head s -> tail s' = tail s -> lastpop s' = lastpop s ->
  bad_order s' = bad_order s -> bad_head s' = bad_head s -> bad_val s' = bad_val s ->
  kclock s <= kclock s' ->
  (forall p, active (P s' p) = true ->
     active (P s p) = true /\ qn (P s' p) = qn (P s p) /\ qprev (P s' p) = qprev (P s p) /\
     qempty (P s' p) = qempty (P s p) /\ qclk (P s' p) = qclk (P s p) /\ stage_of (qp (P s' p)) = stage_of (qp (P s p))) ->
  (kp s' = KP2 -> inch (nd s (kn s')) = true /\ gpred (nd s (kn s')) = tail s /\ stage (nd s (kn s')) = 0 /\ kn s' <> tail s) ->
  (in_remove (kp s') -> ret (nd s (kn s')) = true /\ nlink (nd s' (kn s')) = true /\ nprev (nd s (kn s')) <> None) ->
  (kp s' = KR2 -> nnext (nd s (kn s')) = Some (kx s')) ->
  (spinning (kp s') -> head s <> tail s) ->
  Inv s'.
Proof.
  intros Hi Hn Hun Enn Eh Et El E1 E2 E3 Eck HP HK2 HK3 HK5 HK6.
  assert (Fp : forall x, nprev (nd s' x) = nprev (nd s x)) by (intro x; apply (Hn x)).
  assert (Fx : forall x, nnext (nd s' x) = nnext (nd s x)) by (intro x; apply (Hn x)).
  assert (Fv : forall x, nval (nd s' x) = nval (nd s x)) by (intro x; apply (Hn x)).
  assert (Fs : forall x, stage (nd s' x) = stage (nd s x)) by (intro x; apply (Hn x)).
  assert (Fi : forall x, inch (nd s' x) = inch (nd s x)) by (intro x; apply (Hn x)).
  assert (Fg : forall x, gpred (nd s' x) = gpred (nd s x)) by (intro x; apply (Hn x)).
  assert (Fc : forall x, cons (nd s' x) = cons (nd s x)) by (intro x; apply (Hn x)).
  assert (Fr : forall x, ret (nd s' x) = ret (nd s x)) by (intro x; apply (Hn x)).
  assert (Fl : forall x, x <> tail s -> nlink (nd s' x) = nlink (nd s x)) by (intro x; apply (Hn x)).
  assert (Fl2 : forall x, nlink (nd s' x) = true -> nlink (nd s x) = true) by (intro x; apply (Hn x)).
  constructor; unfold ninv, pinv; cbv zeta; rewrite ?Enn, ?Eh, ?Et, ?El, ?E1, ?E2, ?E3;
    repeat setoid_rewrite Fp; repeat setoid_rewrite Fx; repeat setoid_rewrite Fv; repeat setoid_rewrite Fs;
    repeat setoid_rewrite Fi; repeat setoid_rewrite Fg; repeat setoid_rewrite Fc; repeat setoid_rewrite Fr.
  - apply (G1 _ Hi).
  - apply (G2 _ Hi).
  - apply (G3 _ Hi).
  - intros x Hx. rewrite (Hun x Hx). apply (G4 _ Hi x Hx).
  - apply (GM _ Hi).
  - intros b Hb Hbt. rewrite (Fl b Hbt). apply (NI _ Hi b Hb Hbt).
  - apply (N6 _ Hi).
  - intros n Hlt Hin. destruct (N7 _ Hi n Hlt Hin) as (a1 & a2). split; auto.
    destruct (nlink (nd s' n)) eqn:E; auto. rewrite (Fl2 n E) in a1. discriminate.
  - apply (N8 _ Hi).
  - apply (NR _ Hi).
  - intros p Ha. destruct (HP p Ha) as (a0 & e1 & e2 & e3 & e4 & e5). rewrite e1, e2, e3, e4, e5.
    pose proof (PP _ Hi p a0) as Hq. cbv zeta in Hq.
    destruct Hq as (q1&q2&q3&q4&q5&q6&q7&q8&q9&q10). repeat split; auto; try lia.
    all: try (apply q8; assumption).
    intros Hc. apply q10. lia.
  - intros p p' Hne Ha Ha'. destruct (HP p Ha) as (a0 & e1 & _). destruct (HP p' Ha') as (a0' & e1' & _). rewrite e1, e1'. apply (PU _ Hi); assumption.
  - assumption.
  - intros Hk. apply (HK3 Hk).
  - intros Hk. destruct (HK3 Hk) as (_ & a & b). auto.
  - assumption.
  - assumption.
  - apply (GH _ Hi).
Qed.

Lemma frame s s' :
  Inv s ->
  (forall x, ceq (nd s' x) (nd s x) /\ (x <> tail s -> nlink (nd s' x) = nlink (nd s x)) /\
             (nlink (nd s' x) = true -> nlink (nd s x) = true)) ->
  (forall x, nn s <= x -> nd s' x = nd s x) ->
  nn s' = nn s -> head s' = head s -> tail s' = tail s -> lastpop s' = lastpop s ->
  bad_order s' = bad_order s -> bad_head s' = bad_head s -> bad_val s' = bad_val s ->
  kclock s <= kclock s' ->
  (forall p, active (P s' p) = true -> P s' p = P s p) ->
  (kp s' = KP2 -> inch (nd s (kn s')) = true /\ gpred (nd s (kn s')) = tail s /\ stage (nd s (kn s')) = 0 /\ kn s' <> tail s) ->
  (in_remove (kp s') -> ret (nd s (kn s')) = true /\ nlink (nd s' (kn s')) = true /\ nprev (nd s (kn s')) <> None) ->
  (kp s' = KR2 -> nnext (nd s (kn s')) = Some (kx s')) ->
  (spinning (kp s') -> head s <> tail s) ->
  Inv s'.
Proof.
  intros Hi Hn Hun Enn Eh Et El E1 E2 E3 Eck HP. apply frame_gen; auto.
  intros p Ha. pose proof (HP p Ha) as E. rewrite E in *. repeat split; auto.
Qed.


Ltac step_cases H :=
  unfold step in H;
  repeat match type of H with
  | context [match ?ac with Push _ => _ | _ => _ end] => is_var ac; destruct ac
  | context [match qp ?x with _ => _ end] => let E := fresh "Eqp" in destruct (qp x) eqn:E
  | context [match kp ?s with _ => _ end] => let E := fresh "Ekp" in destruct (kp s) eqn:E
  | context [match nnext ?x with _ => _ end] => let E := fresh "Enx" in destruct (nnext x) eqn:E
  | context [match nprev ?x with _ => _ end] => let E := fresh "Epv" in destruct (nprev x) eqn:E
  | context [if ?c then _ else _] => let E := fresh "Ec" in destruct c eqn:E
  end; try discriminate; inv_some.

Lemma ceq_refl d : ceq d d.
Proof. unfold ceq; tauto. Qed.

(* node side condition of [frame] for transitions that touch at most the non-core fields of one node,
   or clear the link bit of the stub *)
Ltac frame_nodes :=
  let x := fresh "x" in
  intro x; cbn; upd_tac; cbn;
  repeat split; auto; try (intros; congruence); try (intros; discriminate).

Lemma handle_lt s n : Inv s -> has_handle s n = true -> n < nn s /\ ret (nd s n) = true /\ 1 <= n.
Proof.
  unfold has_handle. intros Hi H. apply andb_prop in H. destruct H as (H & _).
  destruct (NR _ Hi n H) as (_ & a & b). auto.
Qed.

(* the entry in the consumer's hand inside remove(): it is a chain member behind the stub, its
   memory predecessor is its chain predecessor *)
Lemma remove_facts s : Inv s -> in_remove (kp s) ->
  let n := kn s in
  1 <= n /\ n < nn s /\ inch (nd s n) = true /\ n <> tail s /\ stage (nd s n) = 0 /\
  nprev (nd s n) = Some (gpred (nd s n)) /\ inch (nd s (gpred (nd s n))) = true /\ gpred (nd s n) < n /\
  nval (nd s n) = true /\ cons (nd s n) = 0 /\
  (forall x, nnext (nd s n) = Some x -> inch (nd s x) = true /\ gpred (nd s x) = n /\ n < x /\ x <> tail s /\ stage (nd s x) = 0).
Proof.
  intros Hi Hk n. pose proof (K3 _ Hi Hk) as kr. destruct (K4 _ Hi Hk) as (kl & kpv).
  destruct (NR _ Hi _ kr) as (r1 & r2 & r3). fold n in kr, kl, kpv, r1, r2, r3.
  assert (Hin : inch (nd s n) = true).
  { destruct (inch (nd s n)) eqn:E; auto. destruct (N7 _ Hi n r2 E). congruence. }
  assert (Hnt : n <> tail s) by (intro E; rewrite E in kpv; destruct (G2 _ Hi) as (_&_&_&t4); congruence).
  destruct (NI _ Hi n Hin Hnt) as (n1&n2&n3&n4&n5&n6&n7&n8&n9&n10).
  repeat split; auto; try (apply n5; lia).
  all: destruct (N6 _ Hi n x Hin H) as (x1 & x2 & x3 & x4); auto.
  destruct (NI _ Hi x x1 x4) as (y1&_). lia.
Qed.

(* the successor found by the consumer behind the stub *)
Lemma next_of_tail s x : Inv s -> nnext (nd s (tail s)) = Some x ->
  inch (nd s x) = true /\ gpred (nd s x) = tail s /\ stage (nd s x) = 0 /\ x <> tail s /\ nval (nd s x) = true /\ cons (nd s x) = 0.
Proof.
  intros Hi H. destruct (G2 _ Hi) as (t1 & _). destruct (N6 _ Hi _ _ t1 H) as (a1 & a2 & a3 & a4).
  destruct (NI _ Hi x a1 a4) as (_&_&_&_&_&_&b7&_&b9&_). repeat split; auto.
Qed.

Lemma inv_step_frames s a s' : Inv s -> step s a = Some s' ->
  (match a with PStep _ => False | KStep _ => kp s <> KP2 /\ kp s <> KR2 | _ => True end) -> Inv s'.
Proof.
  intros Hi H Ha.
  pose proof (G1 _ Hi) as (g1 & g2 & g3 & g4). pose proof (G2 _ Hi) as (t1 & t2 & t3 & t4).
  pose proof (K3 _ Hi) as k3. pose proof (K4 _ Hi) as k4. pose proof (K6 _ Hi) as k6. unfold in_remove, spinning in *.
  step_cases H; try contradiction; try (destruct Ha; congruence).
  all: try match goal with E : has_handle _ _ = true |- _ => destruct (handle_lt _ _ Hi E) as (? & ? & ?) end.
  all: try match goal with k : KR1 = KR1 \/ _ -> ret _ = true |- _ => destruct (NR _ Hi _ (k (or_introl eq_refl))) as (_ & ? & _) end.
  all: try match goal with E : nnext (nodes _ (tail _)) = Some _ |- _ => destruct (next_of_tail _ _ Hi E) as (?&?&?&?&?&?) end.
  all: eapply frame; [exact Hi | frame_nodes | intros x Hx; cbn; rewrite ?upd_neq by lia; reflexivity | ..]; try reflexivity; cbn; try lia;
       unfold in_remove, spinning; try discriminate.
  all: try (intros p0 Hact; unfold upd in *; destruct (Nat.eqb p0 p); [cbn in Hact; discriminate | reflexivity]).
  all: try (intros [E|E]; discriminate).
  all: try (intros [E|[E|E]]; discriminate).
  all: try solve [apply (K2 _ Hi)]. all: try solve [apply (K5 _ Hi)].
  all: try solve [intros E; split; [apply k3; auto | apply k4; auto]].
  all: try solve [intros E; apply k6; auto].
  all: try solve [intros; repeat split; auto; try apply k3; try apply k4; auto].
  all: try (intros _; bools; auto).
  all: try solve [repeat split; auto; match goal with E : nprev _ = Some _ |- _ => rewrite E; discriminate end].
  all: try (rewrite t3; match goal with E : nval _ = true |- _ => rewrite E end; cbn; destruct (GM _ Hi) as (_&_&m3); rewrite m3; reflexivity).
  all: match goal with |- ?G => idtac "REM" G end.
Qed.
