(* C19 - core invariant: Q1, the producer writes its own prev pointer (a plain write to a node nobody
   else can reach yet). *)
From Coq Require Import List Arith Bool Lia.
Import ListNotations.
Require Import MayV.Queue.ListV1Model MayV.Queue.ListV1Inv.

Lemma inv_q1 s p s' : Inv s -> qp (P s p) = Q1 -> step s (PStep p) = Some s' -> Inv s'.
Proof.
  intros Hi Eq H. unfold step in H. rewrite Eq in H. inv_some.
  pfacts Hi p. destruct (Hp8 ltac:(lia)) as (Hn1 & Hn2 & Hn3 & Hn4).
  set (n := qn (P s p)) in *. set (a := qprev (P s p)) in *.
  destruct (G1 _ Hi) as (g1 & g2 & g3 & g4). destruct (G2 _ Hi) as (t1 & t2 & t3 & t4).
  assert (Hnt : n <> tail s) by (intro E; destruct (G3 _ Hi a Hn3) as [L _]; lia).
  unfold modn, deref; cbn.
  set (f := upd (nodes s) n _).
  assert (Fn : nprev (f n) = Some a /\ stage (f n) = 1) by (unfold f; rewrite upd_eq; cbn; auto).
  assert (Fo : forall x, x <> n -> f x = nd s x) by (intros x Hx; unfold f; apply upd_neq; assumption).
  assert (Fi : forall x, inch (f x) = inch (nd s x) /\ gpred (f x) = gpred (nd s x) /\ nnext (f x) = nnext (nd s x) /\
                         nval (f x) = nval (nd s x) /\ nlink (f x) = nlink (nd s x) /\ cons (f x) = cons (nd s x) /\ ret (f x) = ret (nd s x)).
  { intro x. destruct (Nat.eq_dec x n) as [->|ne]; [unfold f; rewrite upd_eq; cbn; tauto | rewrite (Fo x ne); tauto]. }
  destruct Fn as (Fn1 & Fn2).
  constructor; unfold ninv, pinv, in_remove, spinning; cbv zeta; cbn; fold f.
  - auto.
  - destruct (Fi (tail s)) as (i1&_&_&i4&_). destruct (Fi (head s)) as (j1&_). rewrite i1, j1, i4, (Fo _ (not_eq_sym Hnt)). auto.
  - intro x. destruct (Fi x) as (i1&_). rewrite i1. apply (G3 _ Hi).
  - intros x Hx. rewrite Fo by lia. apply (G4 _ Hi x Hx).
  - apply (GM _ Hi).
  - intros b. destruct (Fi b) as (i1&i2&i3&i4&i5&i6&i7). destruct (Fi (gpred (nd s b))) as (k1&_&k3&_).
    rewrite i1, i2, i4, i5, i6, k1, k3. intros Hb Hbt.
    destruct (NI _ Hi b Hb Hbt) as (a1&a2&a3&a4&a5&a6&a7&a8&a9&a10).
    destruct (Nat.eq_dec b n) as [->|ne].
    + rewrite Fn1, Fn2. repeat split; auto; try lia; try congruence.
      intros x Hx. destruct (Fi x) as (x1&_). rewrite x1 in Hx. apply (a3 x Hx).
    + rewrite (Fo b ne). repeat split; auto.
      intros x Hx. destruct (Fi x) as (x1&_). rewrite x1 in Hx. apply (a3 x Hx).
  - intros a0 x. destruct (Fi a0) as (i1&_&i3&_). destruct (Fi x) as (x1&x2&_). rewrite i1, i3, x1, x2. intros Ha Hx.
    destruct (N6 _ Hi a0 x Ha Hx) as (b1&b2&b3&b4). repeat split; auto.
    destruct (Nat.eq_dec x n) as [->|ne]; [lia | rewrite (Fo x ne); assumption].
  - intros m Hm. destruct (Fi m) as (i1&_&_&_&i5&i6&_). rewrite i1, i5, i6. apply (N7 _ Hi m Hm).
  - destruct (Fi (tail s)) as (_&_&_&_&_&i6&_). destruct (Fi 0) as (_&_&_&_&_&j6&_). rewrite i6, j6. apply (N8 _ Hi).
  - intros m. destruct (Fi m) as (_&_&_&_&_&_&i7). rewrite i7. intros Hr.
    destruct (NR _ Hi m Hr) as (r1&r2&r3). destruct (Nat.eq_dec m n) as [->|ne]; [congruence | rewrite (Fo m ne); auto].
  - intros q. destruct (Nat.eq_dec q p) as [->|nq].
    + rewrite upd_eq; cbn. intros _. fold n a. rewrite Fn2. destruct (Fi a) as (i1&_&i3&_). destruct (Fi n) as (j1&j2&_&_&_&_&j7). rewrite i1, i3, j1, j2, j7.
      repeat split; auto; try lia; try congruence.
    + rewrite upd_neq by assumption. intros Ha. pose proof (PP _ Hi q Ha) as Hq. cbv zeta in Hq.
      assert (Hqn : qn (P s q) <> n).
      { apply (PU _ Hi q p nq Ha). unfold active. rewrite Eq. reflexivity. }
      destruct (Fi (qprev (P s q))) as (i1&_&i3&_). destruct (Fi (qn (P s q))) as (j1&j2&_&_&_&_&j7).
      rewrite (Fo _ Hqn) in *. rewrite i1, i3. exact Hq.
  - intros q q' Hne. destruct (Nat.eq_dec q p) as [->|nq]; destruct (Nat.eq_dec q' p) as [->|nq'];
      rewrite ?upd_eq, ?upd_neq by assumption; cbn; try congruence.
    + intros _ Ha'. intro E. apply (PU _ Hi p q' Hne); auto. unfold active; rewrite Eq; reflexivity.
    + intros Ha _. intro E. apply (PU _ Hi q p Hne); auto. unfold active; rewrite Eq; reflexivity.
    + apply (PU _ Hi); assumption.
  - intros Hk. destruct (K2 _ Hi Hk) as (c1&c2&c3&c4). destruct (Fi (kn s)) as (i1&i2&_). rewrite i1, i2. repeat split; auto.
    destruct (Nat.eq_dec (kn s) n) as [e|ne]; [rewrite e in c3; lia | rewrite (Fo _ ne); assumption].
  - intros Hk. destruct (Fi (kn s)) as (_&_&_&_&_&_&i7). rewrite i7. apply (K3 _ Hi Hk).
  - intros Hk. destruct (K4 _ Hi Hk) as (c1&c2). destruct (Fi (kn s)) as (_&_&_&_&i5&_). rewrite i5. split; auto.
    destruct (Nat.eq_dec (kn s) n) as [e|ne]; [rewrite e, Fn1; congruence | rewrite (Fo _ ne); assumption].
  - intros Hk. destruct (Fi (kn s)) as (_&_&i3&_). rewrite i3. apply (K5 _ Hi Hk).
  - apply (K6 _ Hi).
  - destruct (Fi (head s)) as (_&_&i3&_). rewrite i3. apply (GH _ Hi).
Qed.
