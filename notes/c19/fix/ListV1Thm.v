(* C19 - theorems about every reachable state of the mpsc_list_v1 model. *)
From Coq Require Import List Arith Bool Lia.
Import ListNotations.
Require Import MayV.Queue.ListV1Model MayV.Queue.ListV1Inv MayV.Queue.ListV1Frame MayV.Queue.ListV1PresQ0 MayV.Queue.ListV1PresQ1
  MayV.Queue.ListV1PresQ2 MayV.Queue.ListV1PresQ3 MayV.Queue.ListV1PresKP2 MayV.Queue.ListV1PresKR2 MayV.Queue.ListV1Refs.

Lemma inv_step s a s' : Inv s -> step s a = Some s' -> Inv s'.
Proof.
  intros Hi H. destruct a as [p | p | | | | | n | n | n | y]; try (eapply inv_step_frames; eauto; exact I).
  - destruct (qp (P s p)) eqn:Eq.
    + unfold step in H. rewrite Eq in H. discriminate.
    + eapply inv_q0; eauto.
    + eapply inv_q1; eauto.
    + eapply inv_q2; eauto.
    + eapply inv_q3; eauto.
  - destruct (kp s) eqn:Ek; try (eapply inv_step_frames; eauto; cbn; split; congruence).
    + eapply inv_kp2; eauto.
    + eapply inv_kr2; eauto.
Qed.

Theorem inv_reach s : Reach s -> Inv s /\ Inv2 s.
Proof.
  induction 1 as [|s a s' R (Hi & H2) H]; [split; [apply inv_init | apply inv2_init]|].
  split; [eapply inv_step; eauto | eapply inv2_step; eauto].
Qed.

(* ------------------------------------------------------------------------------------------------ *)
(* C19 (i): consumed at most once, by exactly one of pop / pop_if / remove; pops in push order        *)

Theorem consumed_at_most_once s n : Reach s -> cons (nd s n) <= 1.
Proof.
  intros R. destruct (inv_reach s R) as (Hi & _). destruct (N8 _ Hi) as (a & b).
  destruct (Nat.lt_ge_cases n (nn s)) as [L|L]; [|rewrite (G4 _ Hi n L); cbn; lia].
  destruct (inch (nd s n)) eqn:Ei.
  - destruct (Nat.eq_dec n (tail s)) as [->|ne].
    + destruct (Nat.eq_dec (tail s) 0) as [e|ne0]; [rewrite e, b; lia | rewrite a; lia].
    + destruct (NI _ Hi n Ei ne) as (_&_&_&_&_&_&_&_&c&_). lia.
  - destruct (Nat.eq_dec n 0) as [->|ne0]; [lia|]. destruct (N7 _ Hi n L Ei) as (_&c). rewrite c; lia.
Qed.

(* an entry whose push has swapped is unconsumed exactly as long as it is a chain member behind the
   stub, and then its value is still in its node: nothing is lost *)
Theorem unconsumed_iff_in_chain s n : Reach s -> 1 <= n -> n < nn s ->
  (cons (nd s n) = 0 <-> (inch (nd s n) = true /\ n <> tail s)) /\
  (cons (nd s n) = 0 -> nval (nd s n) = true).
Proof.
  intros R L1 L2. destruct (inv_reach s R) as (Hi & _). destruct (N8 _ Hi) as (a & b).
  destruct (inch (nd s n)) eqn:Ei.
  - destruct (Nat.eq_dec n (tail s)) as [e|ne].
    + rewrite e in *. rewrite (a L1). split; [split; [lia | intros (_ & c); congruence] | lia].
    + destruct (NI _ Hi n Ei ne) as (_&_&_&_&_&_&v&_&c&_). split; [split; auto | auto].
  - destruct (N7 _ Hi n L2 Ei) as (_ & c). rewrite (c L1). split; [split; [lia | intros (c1 & _); congruence] | lia].
Qed.

Theorem pops_in_push_order s : Reach s -> bad_order s = false.
Proof. intros R. apply (GM _ (proj1 (inv_reach s R))). Qed.

(* at its commit a pop / pop_if hands out the first entry, in push order, that was not consumed before *)
Theorem pop_returns_first_unconsumed s : Reach s -> kp s = KP2 ->
  cons (nd s (kn s)) = 0 /\ nval (nd s (kn s)) = true /\ forall m, 1 <= m -> m < kn s -> cons (nd s m) = 1.
Proof.
  intros R Hk. destruct (inv_reach s R) as (Hi & _). destruct (K2 _ Hi Hk) as (k1 & k2 & k3 & k4).
  destruct (NI _ Hi _ k1 k4) as (x1&x2&x3&_&_&_&x7&_&x9&_). destruct (N8 _ Hi) as (a & b).
  destruct (G1 _ Hi) as (_&_&g3&_). destruct (G3 _ Hi _ k1) as (_ & L).
  repeat split; auto. intros m L1 L2.
  destruct (inch (nd s m)) eqn:Ei.
  - destruct (G3 _ Hi m Ei) as (L3 & _). destruct (Nat.eq_dec m (tail s)) as [->|ne]; [apply a; lia|].
    exfalso. apply (x3 m Ei). lia.
  - apply (N7 _ Hi m ltac:(lia) Ei). assumption.
Qed.

(* the code's assertions about values: a value is present whenever it is taken or inspected *)
Theorem value_present_when_taken s : Reach s -> bad_val s = false.
Proof. intros R. apply (GM _ (proj1 (inv_reach s R))). Qed.

(* ------------------------------------------------------------------------------------------------ *)
(* C19 (iv): the head report                                                                         *)

Theorem head_report_claims s : Reach s -> bad_head s = false.
Proof. intros R. apply (GM _ (proj1 (inv_reach s R))). Qed.

(* the same, spelled out at the producer's read of the consumer position (r is the flag push returns).
   Since the read precedes the `prev.next` store, the own entry is always unconsumed here and `prev` is still a
   chain member, hence neither freed nor re-allocated: comparing addresses is comparing node identities. *)
Theorem head_report s p s' : Reach s -> qp (P s p) = Q2 -> step s (PStep p) = Some s' ->
  let x := P s p in let n := qn x in let r := qhead (P s' p) in
  (* the own entry is an unconsumed chain member, prev is a chain member that has not been freed *)
  (cons (nd s n) = 0 /\ inch (nd s n) = true /\ inch (nd s (qprev x)) = true /\ freed (nd s (qprev x)) = false) /\
  (* a *) (qempty x = true -> r = true) /\
  (* b *) (r = false -> qempty x = false) /\
  (* c *) (r = true -> forall m, 1 <= m -> m < n -> cons (nd s m) = 1) /\
  (* d *) (qclk x = kclock s -> r = qempty x).
Proof.
  intros R Eq H. assert (R' : Reach s') by (eapply RS; eauto).
  pose proof (head_report_claims s' R') as Hb. pose proof (head_report_claims s R) as Hb0.
  destruct (inv_reach s R) as (Hi & H2). pfacts Hi p. cbn in Hp4. destruct (Hp8 ltac:(lia)) as (Hn1 & Hn2 & Hn3 & Hn4).
  unfold step in H. rewrite Eq in H. inv_some. cbn in Hb. rewrite Hb0 in Hb. cbn in Hb.
  apply negb_false_iff in Hb. apply andb_prop in Hb. destruct Hb as (Hb & cD). apply andb_prop in Hb. destruct Hb as (cA & cC).
  cbn. rewrite upd_eq. cbn.
  set (n := qn (P s p)) in *. set (a := qprev (P s p)) in *.
  destruct (G1 _ Hi) as (_&_&g3&_).
  assert (Hat : tail s <= a) by (destruct (G3 _ Hi a Hn3); lia).
  assert (Hnt : n <> tail s) by lia.
  destruct (NI _ Hi n Hn4 Hnt) as (_&_&x3&_&_&_&_&_&c9&_).
  assert (La : a < nn s) by lia.
  destruct (live_not_freed s a H2 La (or_introl Hn3)) as (fa & _).
  rewrite c9 in cA, cC. cbn in cA, cC.
  repeat split; auto.
  - intros He. rewrite He in cA. cbn in cA. exact cA.
  - intros Hr. rewrite Hr in cA. destruct (qempty (P s p)); auto.
  - intros Hr m L1 L2. rewrite Hr in cC. cbn in cC. bools. destruct (N8 _ Hi) as (n8 & _).
    destruct (inch (nd s m)) eqn:Ei.
    + destruct (G3 _ Hi m Ei) as (L3 & _). destruct (Nat.eq_dec m (tail s)) as [->|ne]; [apply n8; lia|].
      exfalso. apply (x3 m Ei). lia.
    + apply (N7 _ Hi m ltac:(lia) Ei). assumption.
  - intros Hc. apply Nat.eqb_eq in Hc. rewrite Hc in cD. cbn in cD. apply eqb_prop in cD. exact cD.
Qed.

(* ------------------------------------------------------------------------------------------------ *)
(* C19 (ii): remove() of an entry that cannot be unlinked                                            *)

(* remove() of an already consumed entry (popped, or removed through another handle of the same node)
   returns None and changes nothing but the handle's reference: the list is intact *)
Theorem remove_consumed_returns_none s n s' : Reach s -> cons (nd s n) = 1 -> step s (Remove n) = Some s' ->
  kres s' = None /\ kp s' = KIdle /\ head s' = head s /\ tail s' = tail s /\
  (forall m, m <> n -> nd s' m = nd s m) /\ nd s' n = w_drop (nd s n).
Proof.
  intros R Hc H. destruct (inv_reach s R) as (Hi & _).
  unfold step in H. destruct (kp s); try discriminate. destruct (has_handle s n) eqn:Eh; [|discriminate].
  destruct (handle_lt _ _ Hi Eh) as (L & Hr & L1).
  destruct (nlink (nd s n) && match nprev (nd s n) with Some _ => true | None => false end) eqn:Ec.
  - exfalso. apply andb_prop in Ec. destruct Ec as (El & Ep).
    assert (Hin : inch (nd s n) = true) by (destruct (inch (nd s n)) eqn:E; auto; destruct (N7 _ Hi n L E); congruence).
    assert (Hnt : n <> tail s) by (intro E; rewrite E in Ep; destruct (G2 _ Hi) as (_&_&_&t4); rewrite t4 in Ep; discriminate).
    destruct (NI _ Hi n Hin Hnt) as (_&_&_&_&_&_&_&_&c&_). lia.
  - inv_some. cbn. repeat split; auto.
    + intros m Hm. rewrite upd_neq by assumption. reflexivity.
    + rewrite upd_eq. reflexivity.
Qed.

(* remove() of the last linked entry (next = null) returns None, changes nothing but the handle's
   reference, and the entry stays an unconsumed chain member with its value (pop will hand it out) *)
Theorem remove_last_returns_none s y s' : Reach s -> kp s = KR1 -> nnext (nd s (kn s)) = None ->
  step s (KStep y) = Some s' ->
  let n := kn s in
  kres s' = None /\ kp s' = KIdle /\ head s' = head s /\ tail s' = tail s /\
  (forall m, m <> n -> nd s' m = nd s m) /\ nd s' n = w_drop (nd s n) /\
  inch (nd s' n) = true /\ n <> tail s' /\ cons (nd s' n) = 0 /\ nval (nd s' n) = true.
Proof.
  intros R Hk Hn H n. destruct (inv_reach s R) as (Hi & _).
  destruct (remove_facts _ Hi (or_introl Hk)) as (f1&f2&f3&f4&f5&f6&f7&f8&f9&f10&f11). fold n in f1, f2, f3, f4, f5, f6, f7, f8, f9, f10, f11.
  unfold step in H. rewrite Hk, Hn in H. inv_some. cbn. fold n. repeat split; auto.
  - intros m Hm. rewrite upd_neq by assumption. reflexivity.
  - rewrite upd_eq. reflexivity.
  - rewrite upd_eq. cbn. assumption.
  - rewrite upd_eq. cbn. assumption.
  - rewrite upd_eq. cbn. assumption.
Qed.

(* ... and every unconsumed entry is eventually handed out by the consumer's pops: the set of unconsumed
   entries in front of it never grows, shrinks at every pop commit, and a pop never answers "empty"
   while it is there (progress of the producers' pending stores is the scheduler's fairness) *)
Definition unconsumed (s : st) (n : nat) : Prop := inch (nd s n) = true /\ n <> tail s.
Definition before (s : st) (n m : nat) : Prop := inch (nd s m) = true /\ tail s < m /\ m < n.

Theorem pop_not_empty_while_unconsumed s n : Reach s -> unconsumed s n -> head s <> tail s.
Proof.
  intros R (Hin & Hnt). destruct (inv_reach s R) as (Hi & _). destruct (G3 _ Hi n Hin). lia.
Qed.

Theorem entry_reached_by_pops s a s' n : Reach s -> step s a = Some s' -> unconsumed s n ->
  (kres s' = Some n /\ cons (nd s' n) = 1 /\ (exists y, a = KStep y) /\ kn s = n /\ (kp s = KP2 \/ kp s = KR2)) \/
  (unconsumed s' n /\ (forall m, before s' n m -> before s n m) /\
   (forall y, a = KStep y -> kp s = KP2 -> before s n (kn s) /\ ~ before s' n (kn s))).
Proof.
  intros R H (Hin & Hnt). destruct (inv_reach s R) as (Hi & _).
  assert (Ln : n < nn s) by (apply (inch_lt _ _ Hi); assumption).
  destruct (G3 _ Hi n Hin) as (Lt & _). destruct (G1 _ Hi) as (_&_&g3&_).
  unfold unconsumed, before.
  step_cases H.
  all: try match goal with E : kp _ = KP2 |- _ => destruct (K2 _ Hi E) as (c1&c2&c3&c4); destruct (NI _ Hi _ c1 c4) as (d1&d2&d3&_) end.
  all: try match goal with E : kp _ = KR2 |- _ =>
         destruct (remove_facts _ Hi (or_intror E)) as (f1&f2&f3&f4&f5&f6&f7&f8&f9&f10&f11);
         destruct (f11 _ (K5 _ Hi E)) as (x1&x2&x3&x4&x5);
         match goal with Epv : nprev (nodes _ (kn _)) = Some ?pr |- _ => assert (pr = gpred (nd s (kn s))) by congruence; subst pr end end.
  all: cbn.
  (* the two commits *)
  all: try match goal with E : kp _ = KP2 |- _ =>
         destruct (Nat.eq_dec (kn s) n) as [En|En];
         [ left; rewrite <- En; rewrite upd_eq; cbn; rewrite upd_neq by lia;
           destruct (NI _ Hi _ c1 c4) as (_&_&_&_&_&_&_&_&e9&_); rewrite e9; repeat split; eauto
         | right; rewrite c2 in *; assert (kn s < n) by (destruct (Nat.lt_ge_cases (kn s) n); [assumption | exfalso; apply (d3 n Hin); lia]);
           split; [split; [rewrite !upd_neq by lia; assumption | lia]
                  | split; [intros m (Hm & Hl); split; [revert Hm; repeat (progress (upd_tac; cbn)); auto; try (intros; lia); try congruence | lia]
                           | intros _ _ _; split; [repeat split; auto; lia | intros (_ & Hc); lia]]] ] end.
  all: try match goal with E : kp _ = KR2 |- _ =>
         destruct (Nat.eq_dec (kn s) n) as [En|En];
         [ left; rewrite <- En; rewrite !upd_neq by lia; rewrite upd_eq; cbn; rewrite f10; repeat split; eauto
         | right; split; [split; [repeat (progress (upd_tac; cbn)); auto; try congruence | assumption]
                         | split; [intros m (Hm & Hl); split; [revert Hm; repeat (progress (upd_tac; cbn)); auto; try (intros; lia); try congruence | lia]
                                  | intros y _ Hk; discriminate]] ] end.
  (* everything else leaves the chain membership of existing nodes and the consumer position alone *)
  all: try (right; split; [split; [repeat (progress (upd_tac; cbn)); auto; try congruence | assumption]
                   | split; [intros m (Hm & Hl); split; [revert Hm; repeat (progress (upd_tac; cbn)); auto; try (intros; lia); try congruence | lia]
                            | intros y Hy; try discriminate; intros Hk; try discriminate]]).
Qed.

(* ------------------------------------------------------------------------------------------------ *)
(* C19 (iii): the doubly linked structure is a chain from the stub to `head` under concurrent pushes  *)

(* The chain members ([inch]), ordered by push order, start at the stub and end at `head`; each member
   other than the stub has its chain predecessor [gpred] directly in front of it; memory agrees with the
   ghost chain: a linked member (stage 0) is linked both ways, a member whose link is still pending has a
   null `next` in its predecessor and its producer sits between the swap and the `prev.next` store (Q1, Q2, Q3). *)
Theorem chain_shape s : Reach s ->
  inch (nd s (tail s)) = true /\ inch (nd s (head s)) = true /\ nnext (nd s (head s)) = None /\
  (forall x, inch (nd s x) = true -> tail s <= x /\ x <= head s) /\
  (forall b, inch (nd s b) = true -> b <> tail s ->
     let a := gpred (nd s b) in
     a < b /\ inch (nd s a) = true /\ (forall x, inch (nd s x) = true -> ~ (a < x /\ x < b)) /\
     (stage (nd s b) = 0 -> nnext (nd s a) = Some b /\ nprev (nd s b) = Some a) /\
     (1 <= stage (nd s b) -> nnext (nd s a) = None /\
        exists p, qn (P s p) = b /\ qprev (P s p) = a /\ (qp (P s p) = Q1 \/ qp (P s p) = Q2 \/ qp (P s p) = Q3))) /\
  (forall a x, inch (nd s a) = true -> nnext (nd s a) = Some x -> inch (nd s x) = true /\ gpred (nd s x) = a).
Proof.
  intros R. destruct (inv_reach s R) as (Hi & H2). destruct (G2 _ Hi) as (t1 & t2 & _).
  repeat split; auto; try apply (GH _ Hi); try (apply (G3 _ Hi); assumption).
  - destruct (NI _ Hi b H H0) as (a1&_). exact a1.
  - destruct (NI _ Hi b H H0) as (_&a2&_). exact a2.
  - destruct (NI _ Hi b H H0) as (_&_&a3&_). exact a3.
  - destruct (NI _ Hi b H H0) as (_&_&_&a4&_). auto.
  - destruct (NI _ Hi b H H0) as (_&_&_&_&a5&_). apply a5. lia.
  - pose proof (inch_lt _ _ Hi H) as L. destruct (R5 _ H2 b L H1) as (o1 & o2).
    pose proof (PP _ Hi (own (nd s b))) as Hp. unfold pinv in Hp. cbv zeta in Hp. rewrite o1 in Hp.
    assert (Ha : active (P s (own (nd s b))) = true) by (unfold active; destruct o2 as [o|[o|o]]; rewrite o; reflexivity).
    destruct (Hp Ha) as (_&_&_&_&_&_&_&q8&_). destruct (q8 H1) as (u1 & u2 & _). rewrite u2. assumption.
  - pose proof (inch_lt _ _ Hi H) as L. destruct (R5 _ H2 b L H1) as (o1 & o2).
    pose proof (PP _ Hi (own (nd s b))) as Hp. unfold pinv in Hp. cbv zeta in Hp. rewrite o1 in Hp.
    assert (Ha : active (P s (own (nd s b))) = true) by (unfold active; destruct o2 as [o|[o|o]]; rewrite o; reflexivity).
    destruct (Hp Ha) as (_&_&_&_&_&_&_&q8&_). destruct (q8 H1) as (u1 & u2 & _).
    exists (own (nd s b)). auto.
  - destruct (N6 _ Hi a x H H0) as (c1 & _). exact c1.
  - destruct (N6 _ Hi a x H H0) as (_ & c2 & _). exact c2.
Qed.

Lemma least_above (f : nat -> bool) a : forall h, a < h -> f h = true ->
  exists b, a < b /\ b <= h /\ f b = true /\ forall x, a < x -> x < b -> f x = false.
Proof.
  induction h as [h IH] using lt_wf_ind. intros L Hf.
  destruct (existsb f (seq (S a) (h - S a))) eqn:E.
  - apply existsb_exists in E. destruct E as (y & Hy & Fy). apply in_seq in Hy.
    destruct (IH y ltac:(lia) ltac:(lia) Fy) as (b & b1 & b2 & b3 & b4).
    exists b. repeat split; auto. lia.
  - exists h. repeat split; auto. intros x L1 L2.
    destruct (f x) eqn:Fx; auto. assert (existsb f (seq (S a) (h - S a)) = true); [|congruence].
    apply existsb_exists. exists x. split; auto. apply in_seq. lia.
Qed.

(* every chain member but `head` has a chain successor *)
Lemma chain_succ_exists s a : Inv s -> inch (nd s a) = true -> a <> head s ->
  exists b, inch (nd s b) = true /\ b <> tail s /\ gpred (nd s b) = a.
Proof.
  intros Hi Ha Hne. destruct (G2 _ Hi) as (_ & t2 & _). destruct (G3 _ Hi a Ha) as (L1 & L2).
  destruct (least_above (fun x => inch (nd s x)) a (head s) ltac:(lia) t2) as (b & b1 & b2 & b3 & b4).
  assert (Hbt : b <> tail s) by lia.
  exists b. repeat split; auto.
  destruct (NI _ Hi b b3 Hbt) as (c1 & c2 & c3 & _).
  destruct (Nat.lt_trichotomy (gpred (nd s b)) a) as [L|[L|L]]; auto; exfalso.
  - apply (c3 a Ha). lia.
  - rewrite (b4 _ L c1) in c2. discriminate.
Qed.

(* visibility: the consumer spins (on the stub's `next`) only while a producer that has swapped behind
   the stub has not yet executed its `prev.next` store *)
Theorem consumer_spins_only_on_pending_store s : Reach s -> spinning (kp s) -> nnext (nd s (tail s)) = None ->
  exists p, (qp (P s p) = Q1 \/ qp (P s p) = Q2 \/ qp (P s p) = Q3) /\ qprev (P s p) = tail s.
Proof.
  intros R Hk Hn. destruct (inv_reach s R) as (Hi & H2). destruct (G2 _ Hi) as (t1 & _).
  pose proof (K6 _ Hi Hk) as Hne.
  destruct (chain_succ_exists s (tail s) Hi t1 ltac:(congruence)) as (b & b1 & b2 & b3).
  destruct (NI _ Hi b b1 b2) as (_&_&_&c4&_).
  assert (Hs : 1 <= stage (nd s b)).
  { destruct (stage (nd s b)) eqn:E; [|lia]. rewrite b3 in c4. rewrite (c4 eq_refl) in Hn. discriminate. }
  pose proof (inch_lt _ _ Hi b1) as L. destruct (R5 _ H2 b L Hs) as (o1 & o2).
  pose proof (PP _ Hi (own (nd s b))) as Hp. unfold pinv in Hp. cbv zeta in Hp. rewrite o1 in Hp.
  assert (Ha : active (P s (own (nd s b))) = true) by (unfold active; destruct o2 as [o|[o|o]]; rewrite o; reflexivity).
  destruct (Hp Ha) as (_&_&_&_&_&_&_&q8&_). destruct (q8 Hs) as (u1 & u2 & _).
  exists (own (nd s b)). split; auto. congruence.
Qed.

(* ------------------------------------------------------------------------------------------------ *)
(* C19 (v): reference counts and freeing                                                             *)

(* the count is exactly the number of owners (the list while the node is in the chain, the handle while it
   exists); the node is freed exactly when the count is 0 *)
Theorem refs_count_owners s n : Reach s -> n < nn s ->
  refs (nd s n) = b2n (inch (nd s n)) + b2n (hnd (nd s n)) /\
  (freed (nd s n) = true <-> refs (nd s n) = 0).
Proof.
  intros R L. destruct (inv_reach s R) as (_ & H2). destruct (R1 _ H2 n L) as (a & b). split; auto.
  rewrite a, b. destruct (inch (nd s n)), (hnd (nd s n)); cbn; split; intros; try discriminate; auto; lia.
Qed.

(* no transition ever dereferences a freed node, decrements a zero count, or trips the code's
   `refs & MASK != 0` assertions *)
Theorem no_use_after_free s : Reach s -> bad_mem s = false.
Proof. intros R. apply (RM _ (proj2 (inv_reach s R))). Qed.

(* a node the consumer or a producer can still reach is not freed: chain members, nodes with a live handle *)
Theorem reachable_not_freed s n : Reach s -> n < nn s -> (inch (nd s n) = true \/ hnd (nd s n) = true) ->
  freed (nd s n) = false.
Proof. intros R L H. destruct (inv_reach s R) as (_ & H2). apply (live_not_freed s n H2 L H). Qed.

Theorem monitors_never_trip s : Reach s -> monitors_ok s = true.
Proof.
  intros R. unfold monitors_ok. rewrite (pops_in_push_order s R), (head_report_claims s R), (value_present_when_taken s R), (no_use_after_free s R). reflexivity.
Qed.
