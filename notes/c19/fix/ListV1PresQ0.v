(* C19 - core invariant: Q0, the producer allocates its node and swaps it into `head`
   (the point at which the entry joins the chain). *)
From Coq Require Import List Arith Bool Lia.
Import ListNotations.
Require Import MayV.Queue.ListV1Model MayV.Queue.ListV1Inv.

Lemma inv_q0 s p s' : Inv s -> qp (P s p) = Q0 -> step s (PStep p) = Some s' -> Inv s'.
Proof.
  intros Hi Eq H. unfold step in H. rewrite Eq in H. inv_some.
  destruct (G1 _ Hi) as (g1 & g2 & g3 & g4). destruct (G2 _ Hi) as (t1 & t2 & t3 & t4).
  remember (nn s) as n eqn:En. remember (head s) as h eqn:Eh.
  set (f := upd (nodes s) n (fresh h p)).
  assert (Fn : f n = fresh h p) by (unfold f; apply upd_eq).
  assert (Fo : forall x, x <> n -> f x = nd s x) by (intros x Hx; unfold f; apply upd_neq; assumption).
  assert (Old : forall x, inch (nd s x) = true -> x < n) by (intros x Hx; destruct (G3 _ Hi x Hx); lia).
  assert (Un : nd s n = unalloc) by (apply (G4 _ Hi); lia).
  constructor; unfold ninv, pinv, in_remove, spinning; cbv zeta; cbn; rewrite <- ?En, <- ?Eh; fold f.
  - lia.
  - rewrite Fn, (Fo (tail s)) by lia. cbn. auto.
  - intros x Hx. destruct (Nat.eq_dec x n) as [->|ne]; [lia|]. rewrite (Fo x ne) in Hx. destruct (G3 _ Hi x Hx). lia.
  - intros x Hx. rewrite Fo by lia. apply (G4 _ Hi). lia.
  - apply (GM _ Hi).
  - intros b Hb Hbt. destruct (Nat.eq_dec b n) as [->|ne].
    + rewrite Fn; cbn. rewrite (Fo h) by lia. repeat split; auto; try lia; try discriminate.
      intros x Hx [L1 L2]. destruct (Nat.eq_dec x n) as [->|nx]; [lia|]. rewrite (Fo x nx) in Hx. destruct (G3 _ Hi x Hx). lia.
    + rewrite (Fo b ne) in *. destruct (NI _ Hi b Hb Hbt) as (a1&a2&a3&a4&a5&a6&a7&a8&a9&a10).
      assert (gpred (nd s b) <> n) by (specialize (Old _ a2); lia).
      rewrite (Fo _ H). repeat split; auto.
      intros x Hx [L1 L2]. destruct (Nat.eq_dec x n) as [->|nx].
      * specialize (Old _ Hb). lia.
      * rewrite (Fo x nx) in Hx. apply (a3 x Hx). lia.
  - intros a0 x Ha Hx. destruct (Nat.eq_dec a0 n) as [->|ne]; [rewrite Fn in Hx; discriminate|].
    rewrite (Fo a0 ne) in *. destruct (N6 _ Hi a0 x Ha Hx) as (b1&b2&b3&b4).
    assert (x <> n) by (specialize (Old _ b1); lia). rewrite (Fo x H). auto.
  - intros m Hm Him. destruct (Nat.eq_dec m n) as [->|ne]; [rewrite Fn in Him; discriminate|].
    rewrite (Fo m ne) in *. apply (N7 _ Hi m); [lia | assumption].
  - rewrite !Fo by lia. apply (N8 _ Hi).
  - intros m Hr. destruct (Nat.eq_dec m n) as [->|ne]; [rewrite Fn in Hr; discriminate|].
    rewrite (Fo m ne) in *. destruct (NR _ Hi m Hr) as (r1&r2&r3). repeat split; auto; lia.
  - intros q. destruct (Nat.eq_dec q p) as [->|nq].
    + rewrite upd_eq; cbn. intros _. rewrite Fn; cbn. rewrite (Fo h) by lia.
      repeat split; auto; try lia; try discriminate.
      * intros E. apply Nat.eqb_eq in E. lia.
      * rewrite Eh. apply (GH _ Hi).
    + rewrite upd_neq by assumption. intros Ha. pose proof (PP _ Hi q Ha) as Hq. cbv zeta in Hq.
      destruct Hq as (q1&q2&q3&q4&q5&q6&q7&q8&q9&q10).
      assert (qn (P s q) <> n) by lia. assert (qprev (P s q) <> n) by lia.
      rewrite !Fo by assumption. repeat split; auto; try lia.
      all: match goal with Hs : stage _ >= 1 |- _ => destruct (q8 Hs) as (u1&u2&u3&u4) end; auto.
  - intros q q' Hne. destruct (Nat.eq_dec q p) as [->|nq]; destruct (Nat.eq_dec q' p) as [->|nq'];
      rewrite ?upd_eq, ?upd_neq by assumption; cbn; try congruence.
    + intros _ Ha'. pose proof (PP _ Hi q' Ha') as Hq. cbv zeta in Hq. lia.
    + intros Ha _. pose proof (PP _ Hi q Ha) as Hq. cbv zeta in Hq. lia.
    + apply (PU _ Hi); assumption.
  - intros Hk. destruct (K2 _ Hi Hk) as (c1&c2&c3&c4). rewrite Fo by (specialize (Old _ c1); lia). auto.
  - intros Hk. pose proof (K3 _ Hi Hk) as c. destruct (NR _ Hi _ c) as (_&r2&_). rewrite Fo by lia. assumption.
  - intros Hk. pose proof (K3 _ Hi Hk) as c. destruct (NR _ Hi _ c) as (_&r2&_). rewrite Fo by lia. apply (K4 _ Hi Hk).
  - intros Hk. pose proof (K3 _ Hi (or_intror Hk)) as c. destruct (NR _ Hi _ c) as (_&r2&_). rewrite Fo by lia. apply (K5 _ Hi Hk).
  - intros _. lia.
  - rewrite Fn. reflexivity.
Qed.
