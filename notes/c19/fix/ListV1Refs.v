(* C19 - second layer of the invariant: reference counts, handles, freeing, the owner of a pending link.
   Preserved by every transition, given the core invariant of the pre-state. *)
From Coq Require Import List Arith Bool Lia.
Import ListNotations.
Require Import MayV.Queue.ListV1Model MayV.Queue.ListV1Inv MayV.Queue.ListV1Frame.

(* a node that is in the chain or whose handle exists has not been freed and has a positive count *)
Lemma live_not_freed s n : Inv2 s -> n < nn s -> (inch (nd s n) = true \/ hnd (nd s n) = true) ->
  freed (nd s n) = false /\ 1 <= refs (nd s n).
Proof.
  intros H2 Hn Hl. destruct (R1 _ H2 n Hn) as (a & b). rewrite a, b.
  destruct Hl as [E|E]; rewrite E; cbn; destruct (inch (nd s n)), (hnd (nd s n)); cbn; auto; lia.
Qed.

Lemma inch_lt s n : Inv s -> inch (nd s n) = true -> n < nn s.
Proof. intros Hi H. destruct (G3 _ Hi n H). destruct (G1 _ Hi) as (_&_&?&_). lia. Qed.

Ltac r1_at H2 n :=
  let a := fresh "r1a" in let b := fresh "r1b" in
  destruct (R1 _ H2 n ltac:(first [assumption | lia])) as (a & b).

Ltac facts Hi H2 :=
  pose proof (G1 _ Hi) as (g1 & g2 & g3 & g4); pose proof (G2 _ Hi) as (t1 & t2 & t3 & t4);
  pose proof (R3 _ H2) as (r3a & r3b); pose proof (RM _ H2) as rm;
  pose proof (K3 _ Hi) as k3; pose proof (K4 _ Hi) as k4; pose proof (R4 _ H2) as r4; unfold in_remove in *.

(* the dereferenced nodes of a transition were not freed *)
Ltac live_tac H2 Hi :=
  repeat match goal with
  | |- context [freed (nodes ?s ?x)] =>
      rewrite (proj1 (live_not_freed s x H2 ltac:(first [assumption | lia | apply (inch_lt _ _ Hi); assumption])
                                           ltac:(first [left; assumption | right; assumption | right; auto])))
  end.

Lemma inv2_consumer s a s' : Inv s -> Inv2 s -> step s a = Some s' ->
  (match a with Push _ | PStep _ => False | _ => True end) -> Inv2 s'.
Proof.
  intros Hi H2 H Ha. facts Hi H2.
  assert (Lt : tail s < nn s) by lia.
  destruct (live_not_freed s (tail s) H2 Lt (or_introl t1)) as (ft & rt).
  step_cases H; try contradiction.
  all: try match goal with E : has_handle _ _ = true |- _ =>
         let h1 := fresh "hl" in let h2 := fresh "hr" in let h3 := fresh "hp" in destruct (handle_lt _ _ Hi E) as (h1 & h2 & h3);
         unfold has_handle in E; apply andb_prop in E; destruct E as (_ & E) end.
  all: try match goal with E : nnext (nodes _ (tail _)) = Some _ |- _ => destruct (next_of_tail _ _ Hi E) as (?&?&?&?&?&?) end.
  all: try match goal with E : kp _ = KR1 |- _ =>
         destruct (remove_facts _ Hi (or_introl E)) as (f1&f2&f3&f4&f5&f6&f7&f8&f9&f10&f11); pose proof (R4 _ H2 (or_introl E)) as r4'; pose proof (K3 _ Hi (or_introl E)) as kr' end.
  all: try match goal with E : kp _ = KR2 |- _ =>
         destruct (remove_facts _ Hi (or_intror E)) as (f1&f2&f3&f4&f5&f6&f7&f8&f9&f10&f11); pose proof (R4 _ H2 (or_intror E)) as r4'; pose proof (K3 _ Hi (or_intror E)) as kr';
         destruct (f11 _ (K5 _ Hi E)) as (x1&x2&x3&x4&x5);
         match goal with Epv : nprev (nodes _ (kn _)) = Some ?pr |- _ => assert (pr = gpred (nd s (kn s))) by congruence; subst pr end end.
  all: try match goal with E : kp _ = KP2 |- _ => destruct (K2 _ Hi E) as (c1&c2&c3&c4) end.
  all: constructor; unfold in_remove; cbn.
  (* R1 *)
  all: try (match goal with |- forall n, n < _ -> refs _ = _ /\ _ => idtac end;
            intros m Hm; upd_tac; cbn; try subst m; try solve [apply (R1 _ H2); lia];
            try match goal with |- context [refs (nodes _ ?k)] =>
              destruct (R1 _ H2 k ltac:(lia)) as (r1a & r1b); rewrite ?r1a, ?r1b;
              destruct (inch (nd s k)) eqn:?, (hnd (nd s k)) eqn:?; cbn in *; try discriminate; try congruence; auto end).
  (* R5 *)
  all: try (match goal with |- forall n, n < _ -> 1 <= stage _ -> _ => idtac end;
            intros m Hm; upd_tac; cbn; solve [apply (R5 _ H2); lia]).
  (* R3 *)
  all: try (match goal with |- hnd _ = false /\ _ => idtac end;
            split; [upd_tac; cbn; try congruence; try lia
                   | intros m Hm1 Hm2; upd_tac; cbn; try subst m; try congruence; try (apply r3b; assumption); try (intro; congruence)]).
  (* R4 *)
  all: try (match goal with |- _ \/ _ -> hnd _ = true => idtac end;
            intros [Ek'|Ek']; try discriminate; upd_tac; cbn; auto).
  (* RM *)
  all: try (match goal with |- _ = false => idtac end;
            rewrite rm; cbn; live_tac H2 Hi; cbn;
            try (replace (refs (nd s (tail s)) =? 0) with false by (symmetry; apply Nat.eqb_neq; lia)); reflexivity).
Qed.

Lemma own_unique s p m : Inv s -> Inv2 s -> active (P s p) = true -> qn (P s p) = m -> m < nn s -> 1 <= stage (nd s m) ->
  own (nd s m) = p.
Proof.
  intros Hi H2 Ha Hq Hm Hs. destruct (R5 _ H2 m Hm Hs) as (a & b).
  destruct (Nat.eq_dec (own (nd s m)) p) as [e|ne]; auto. exfalso.
  apply (PU _ Hi _ _ ne); try assumption; try congruence.
  unfold active. destruct b as [b|[b|b]]; rewrite b; reflexivity.
Qed.

Lemma inv2_producer s p s' : Inv s -> Inv2 s -> (step s (Push p) = Some s' \/ step s (PStep p) = Some s') -> Inv2 s'.
Proof.
  intros Hi H2 H. facts Hi H2.
  destruct H as [H|H]; step_cases H.
  - (* Push *)
    constructor; unfold in_remove; cbn; auto.
    + apply (R1 _ H2).
    + intros m Hm Hs. destruct (R5 _ H2 m Hm Hs) as (a & b).
      rewrite upd_neq; [auto|]. intro E. rewrite E in b. destruct b as [b|[b|b]]; congruence.
  - (* Q0 *)
    assert (Un : nd s (nn s) = unalloc) by (apply (G4 _ Hi); lia).
    constructor; unfold in_remove; cbn; auto.
    + intros m Hm. upd_tac; cbn; auto. apply (R1 _ H2). lia.
    + split; [rewrite upd_neq by lia; auto|]. intros m Hm1 Hm2. upd_tac; cbn; auto. intros Hr. apply r3b; auto; lia.
    + intros Hk. pose proof (K3 _ Hi Hk) as kr. destruct (NR _ Hi _ kr) as (_&a&_). rewrite upd_neq by lia. auto.
    + intros m Hm. destruct (Nat.eq_dec m (nn s)) as [->|ne].
      * rewrite upd_eq. cbn. rewrite upd_eq. cbn. auto.
      * rewrite (upd_neq (nodes s)) by assumption. intros Hs. destruct (R5 _ H2 m ltac:(lia) Hs) as (a & b).
        rewrite upd_neq; [auto|]. intro E. rewrite E in b. destruct b as [b|[b|b]]; congruence.
  - (* Q1 *)
    pfacts Hi p. destruct (Hp8 ltac:(lia)) as (Hn1 & Hn2 & Hn3 & Hn4).
    constructor; unfold in_remove; cbn.
    + intros m Hm. upd_tac; cbn; apply (R1 _ H2); lia.
    + split; [upd_tac; cbn; try congruence; auto | intros m Hm1 Hm2; upd_tac; cbn; try subst m; try congruence; try (apply r3b; auto)].
    + intros Hk. apply r4 in Hk. upd_tac; cbn; congruence.
    + intros m Hm. destruct (Nat.eq_dec m (qn (P s p))) as [->|ne].
      * rewrite upd_eq. cbn. intros _. rewrite (own_unique s p (qn (P s p)) Hi H2); auto; [rewrite upd_eq; cbn; auto | unfold active; rewrite Eqp; reflexivity | lia].
      * rewrite (upd_neq (nodes s)) by assumption. intros Hs. destruct (R5 _ H2 m Hm Hs) as (a & b).
        rewrite upd_neq; [auto|]. intro E. rewrite E in a. congruence.
    + rewrite rm. live_tac H2 Hi. reflexivity.
  - (* Q2: the read of the consumer position *)
    pfacts Hi p. cbn in Hp4. destruct (Hp8 ltac:(lia)) as (Hn1 & Hn2 & Hn3 & Hn4).
    constructor; unfold in_remove; cbn; auto.
    + apply (R1 _ H2).
    + intros m Hm Hs. destruct (R5 _ H2 m Hm Hs) as (a & b).
      destruct (Nat.eq_dec (own (nd s m)) p) as [e|ne].
      * rewrite e in *. rewrite upd_eq. cbn. auto.
      * rewrite upd_neq by assumption. auto.
    + rewrite rm. live_tac H2 Hi. reflexivity.
  - (* Q3: the store; the handle is returned *)
    pfacts Hi p. cbn in Hp4. destruct (Hp8 ltac:(lia)) as (Hn1 & Hn2 & Hn3 & Hn4).
    constructor; unfold in_remove; cbn.
    + intros m Hm. upd_tac; cbn; apply (R1 _ H2); lia.
    + split; [upd_tac; cbn; try congruence; auto | intros m Hm1 Hm2; upd_tac; cbn; try subst m; try congruence; try discriminate; try (apply r3b; auto)].
    + intros Hk. apply r4 in Hk. upd_tac; cbn; congruence.
    + intros m Hm. destruct (Nat.eq_dec m (qn (P s p))) as [->|ne]; [rewrite upd_eq; cbn; lia|].
      rewrite (upd_neq _ (qn (P s p))) by assumption.
      assert (Hst : stage (upd (nodes s) (qprev (P s p)) (w_next (Some (qn (P s p))) (nd s (qprev (P s p)))) m) = stage (nd s m) /\
                    own (upd (nodes s) (qprev (P s p)) (w_next (Some (qn (P s p))) (nd s (qprev (P s p)))) m) = own (nd s m))
        by (upd_tac; cbn; auto).
      destruct Hst as (e1 & e2). rewrite e1, e2.
      intros Hs. destruct (R5 _ H2 m Hm Hs) as (a & b).
      rewrite upd_neq; [auto|]. intro E. rewrite E in a. congruence.
    + rewrite rm. live_tac H2 Hi. reflexivity.
Qed.

Lemma inv2_step s a s' : Inv s -> Inv2 s -> step s a = Some s' -> Inv2 s'.
Proof.
  intros Hi H2 H. destruct a; try (eapply inv2_consumer; eauto; exact I).
  - eapply inv2_producer; eauto.
  - eapply inv2_producer; eauto.
Qed.
