(* C19 - core invariant: KP2, the pop / pop_if commit (tail.write): the successor of the stub becomes the
   new stub and hands out its value; the old stub leaves the chain. *)
From Coq Require Import List Arith Bool Lia.
Import ListNotations.
Require Import MayV.Queue.ListV1Model MayV.Queue.ListV1Inv.

(* two distinct chain members cannot share a predecessor *)
Lemma pred_unique s : Inv s -> forall b c, inch (nd s b) = true -> inch (nd s c) = true -> b <> tail s -> c <> tail s ->
  gpred (nd s b) = gpred (nd s c) -> b = c.
Proof.
  intros Hi b c Hb Hc Hbt Hct E.
  destruct (NI _ Hi b Hb Hbt) as (b1&_&b3&_). destruct (NI _ Hi c Hc Hct) as (c1&_&c3&_).
  destruct (Nat.lt_trichotomy b c) as [L|[L|L]]; auto; exfalso.
  - apply (c3 b Hb). lia.
  - apply (b3 c Hc). lia.
Qed.

Lemma inv_kp2 s yes s' : Inv s -> kp s = KP2 -> step s (KStep yes) = Some s' -> Inv s'.
Proof.
  intros Hi Ek H. unfold step in H. rewrite Ek in H. inv_some.
  destruct (K2 _ Hi Ek) as (k1 & k2 & k3 & k4).
  pose proof (G1 _ Hi) as G1'. pose proof (G2 _ Hi) as G2'. pose proof (N8 _ Hi) as N8'.
  pose proof (NI _ Hi) as NI'. unfold ninv in NI'. pose proof (G3 _ Hi) as G3'. pose proof (N6 _ Hi) as N6'.
  pose proof (pred_unique s Hi) as PUq. pose proof (PP _ Hi) as PP'. unfold pinv in PP'. cbv zeta in PP'.
  remember (kn s) as x eqn:Ex. remember (tail s) as t eqn:Et.
  destruct G1' as (g1 & g2 & g3 & g4). destruct G2' as (t1 & t2 & t3 & t4).
  destruct (GM _ Hi) as (m1 & m2 & m3). destruct N8' as (n8a & n8b).
  destruct (NI' x k1 k4) as (x1&x2&x3&x4&x5&x6&x7&x8&x9&x10). rewrite k2 in *.
  destruct (G3' x k1) as (gx1 & gx2).
  assert (Hht : head s <> t) by lia.
  unfold modn, deref; cbn. rewrite <- ?Et, <- ?Ex.
  set (f1 := upd (nodes s) t _). set (f := upd f1 x _).
  assert (Fx : nprev (f x) = None /\ nval (f x) = false /\ cons (f x) = 1 /\ nnext (f x) = nnext (nd s x) /\ nlink (f x) = nlink (nd s x) /\
               stage (f x) = stage (nd s x) /\ inch (f x) = true /\ gpred (f x) = gpred (nd s x) /\ ret (f x) = ret (nd s x)).
  { unfold f. rewrite upd_eq. cbn. unfold f1. rewrite upd_neq by lia. rewrite x9. repeat split; auto. }
  assert (Ft : inch (f t) = false /\ nlink (f t) = false /\ cons (f t) = cons (nd s t) /\ nnext (f t) = nnext (nd s t) /\ ret (f t) = ret (nd s t) /\ stage (f t) = stage (nd s t)).
  { unfold f. rewrite upd_neq by lia. unfold f1. rewrite upd_eq. cbn. repeat split; auto. }
  assert (Fo : forall y, y <> t -> y <> x -> f y = nd s y).
  { intros y H1 H2. unfold f. rewrite upd_neq by assumption. unfold f1. rewrite upd_neq by assumption. reflexivity. }
  assert (Fin : forall y, inch (f y) = true -> inch (nd s y) = true /\ y <> t /\ x <= y).
  { intros y Hy. destruct (Nat.eq_dec y t) as [->|nt]; [destruct Ft; congruence|].
    destruct (Nat.eq_dec y x) as [->|nx]; [auto|]. rewrite (Fo y nt nx) in Hy. repeat split; auto.
    destruct (Nat.lt_ge_cases y x) as [L|L]; [|assumption]. exfalso. destruct (G3' y Hy). apply (x3 y Hy). lia. }
  assert (Fin2 : forall y, inch (nd s y) = true -> y <> t -> inch (f y) = true).
  { intros y Hy nt. destruct (Nat.eq_dec y x) as [->|nx]; [apply Fx | rewrite (Fo y nt nx); assumption]. }
  assert (Fnext : forall y, nnext (f y) = nnext (nd s y)).
  { intro y. destruct (Nat.eq_dec y t) as [->|nt]; [apply Ft|]. destruct (Nat.eq_dec y x) as [->|nx]; [apply Fx | rewrite (Fo y nt nx); reflexivity]. }
  assert (Fret : forall y, ret (f y) = ret (nd s y) /\ stage (f y) = stage (nd s y)).
  { intro y. destruct (Nat.eq_dec y t) as [->|nt]; [split; apply Ft|]. destruct (Nat.eq_dec y x) as [->|nx]; [split; apply Fx | rewrite (Fo y nt nx); auto]. }
  assert (Fgp : forall y, y <> t -> gpred (f y) = gpred (nd s y)).
  { intros y nt. destruct (Nat.eq_dec y x) as [->|nx]; [apply Fx | rewrite (Fo y nt nx); reflexivity]. }
  constructor; unfold ninv, pinv, in_remove, spinning; cbv zeta; cbn; fold f1; fold f.
  - lia.
  - destruct Fx as (a1&a2&_&_&_&_&a7&_). rewrite a1, a2, a7. repeat split; auto.
    all: try (apply Fin2; [assumption | congruence]).
  - intros y Hy. destruct (Fin y Hy) as (h1&h2&h3). destruct (G3' y h1). lia.
  - intros y Hy. rewrite Fo by lia. apply (G4 _ Hi y Hy).
  - rewrite m1, m3, t3, x7. cbn. replace (x <=? lastpop s) with false by (symmetry; apply Nat.leb_gt; lia). auto.
  - intros b Hb Hbx. destruct (Fin b Hb) as (h1&h2&h3).
    destruct (NI' b h1 h2) as (b1&b2&b3&b4&b5&b6&b7&b8&b9&b10).
    assert (Hgp : gpred (nd s b) <> t).
    { intro E. apply Hbx. apply (PUq b x); auto; try congruence. }
    rewrite (Fgp b h2), (Fo b h2 Hbx), Fnext. repeat split; auto.
    all: try (apply Fin2; assumption).
    all: try (intros y Hy; destruct (Fin y Hy) as (y1&_); apply (b3 y y1)).
  - intros a0 y Ha Hy. destruct (Fin a0 Ha) as (h1&h2&h3). rewrite Fnext in Hy.
    destruct (N6' a0 y h1 Hy) as (c1&c2&c3&c4).
    assert (y <> x) by (intro E; subst y; congruence).
    rewrite (Fo y ltac:(congruence) H). repeat split; auto.
  - intros m Hm Him. destruct (Nat.eq_dec m t) as [->|nt].
    + destruct Ft as (_&a2&a3&_). rewrite a2, a3. split; auto.
    + destruct (Nat.eq_dec m x) as [->|nx]; [destruct Fx as (_&_&_&_&_&_&a7&_); congruence|].
      rewrite (Fo m nt nx) in *. apply (N7 _ Hi m Hm Him).
  - split; [intros _; apply Fx|].
    destruct (Nat.eq_dec 0 t) as [e|ne]; [rewrite e; destruct Ft as (_&_&a3&_); rewrite a3, <- e; assumption | rewrite Fo by lia; assumption].
  - intros m Hr. destruct (Fret m) as (r1&r2). rewrite r1 in Hr. rewrite r2. apply (NR _ Hi m Hr).
  - intros q Ha. pose proof (PP' q Ha) as Hq. destruct Hq as (q1&q2&q3&q4&q5&q6&q7&q8&q9&q10).
    destruct (Fret (qn (P s q))) as (r1&r2). rewrite r1, r2, Fnext.
    repeat split; auto.
    + intros Hy. destruct (Fin _ Hy) as (h1&h2&h3). rewrite (Fgp _ h2). apply q5; assumption.
    + intros Hy. destruct (inch (nd s (qn (P s q)))) eqn:Ei.
      * destruct (Nat.eq_dec (qn (P s q)) t) as [e|ne]; [lia|]. rewrite (Fin2 _ Ei ne) in Hy. discriminate.
      * specialize (q6 eq_refl). lia.
    + intros Hy. specialize (q7 Hy). lia.
    + apply q8; assumption.
    + destruct (q8 H) as (u1&u2&u3&u4).
      assert (qn (P s q) <> t) by (intro E; destruct (G3' _ u3); lia).
      rewrite (Fgp _ H0). assumption.
    + destruct (q8 H) as (u1&u2&u3&u4). apply Fin2; auto.
      intro E. (* a pending producer directly behind the old stub would share x's predecessor *)
      assert (qn (P s q) <> t) by (intro E2; destruct (G3' _ u3); lia).
      assert (qn (P s q) = x) by (apply PUq; auto; congruence). rewrite H1 in H. lia.
    + destruct (q8 H) as (u1&u2&u3&u4). apply Fin2; auto. intro E. destruct (G3' _ u3). lia.
    + intros Hc. lia.
  - apply (PU _ Hi).
  - discriminate.
  - intros [E|E]; discriminate.
  - intros [E|E]; discriminate.
  - discriminate.
  - intros [E|[E|E]]; discriminate.
  - rewrite Fnext. apply (GH _ Hi).
Qed.
