(* C19 - addresses.  The model identifies a node with its allocation index; the code compares addresses
   (`ptr::eq(tail, prev)` in push).  Overlay: every node gets an address when it is allocated (Q0), chosen by
   the allocator among the addresses not held by a node that is allocated and not freed.

   1. For push as it is now (consumer position read BEFORE the `prev.next` store): at the read both compared
      nodes are chain members, hence not freed, and distinct unfreed nodes have distinct addresses: the
      address comparison IS the identity comparison ([code_flag_is_model_flag]); so the head-report claims of
      ListV1Thm.head_report hold for the flag the code computes, allocator re-use included.
   2. For push as it was before the fix (read AFTER the store, [step_old]): with re-use of a freed node's address
      the code-level flag is true although the own entry is long consumed - the witness
      [head_report_c_refuted_under_address_reuse] (replayed on the real code by harness/src/bin/q_list_aba.rs)
      is what the fix repaired. *)
From Coq Require Import List Arith Bool Lia.
Import ListNotations.
Require Import MayV.Queue.ListV1Model MayV.Queue.ListV1Inv MayV.Queue.ListV1Frame MayV.Queue.ListV1Refs MayV.Queue.ListV1Thm.

Definition amap := nat -> nat.
(* address [c] is free: no allocated, unfreed node lives there *)
Definition addr_free (s : st) (ad : amap) (c : nat) : bool :=
  forallb (fun k => freed (nodes s k) || negb (Nat.eqb (ad k) c)) (seq 0 (nn s)).

(* overlay step over a base step function: [c] is the allocator's choice, used by the Q0 transition only *)
Definition step2g (stp : st -> action -> option st) (x : st * amap) (a : action) (c : nat) : option (st * amap) :=
  let (s, ad) := x in
  match stp s a with
  | None => None
  | Some s' =>
      match a with
      | PStep p => match qp (P s p) with
                   | Q0 => if addr_free s ad c then Some (s', upd ad (nn s) c) else None
                   | _ => Some (s', ad) end
      | _ => Some (s', ad)
      end
  end.
Definition step2 := step2g step.
Definition init2 : st * amap := (init, fun _ => 0).
Inductive Reach2 : st * amap -> Prop :=
| R20 : Reach2 init2
| R2S x a c x' : Reach2 x -> step2 x a c = Some x' -> Reach2 x'.

Lemma step2_base stp s ad a c s' ad' : step2g stp (s, ad) a c = Some (s', ad') -> stp s a = Some s'.
Proof.
  unfold step2g. destruct (stp s a) as [s1|] eqn:E; [|discriminate]. intros H.
  assert (s' = s1); [|subst; reflexivity].
  destruct a; try (inversion H; reflexivity).
  destruct (qp (P s p)); try (inversion H; reflexivity).
  destruct (addr_free s ad c); inversion H; reflexivity.
Qed.

Lemma reach2_reach x : Reach2 x -> Reach (fst x).
Proof.
  induction 1 as [|[s ad] a c [s' ad'] R IH H]; [apply R0|].
  cbn in *. eapply RS; [exact IH | eapply step2_base; exact H].
Qed.

Fixpoint run2 (x : st * amap) (l : list (action * nat)) : option (st * amap) :=
  match l with [] => Some x | (a, c) :: l' => match step2 x a c with Some x' => run2 x' l' | None => None end end.
Lemma run2_reach l : forall x x', Reach2 x -> run2 x l = Some x' -> Reach2 x'.
Proof.
  induction l as [|[a c] l IH]; cbn; intros x x' R H; [inversion H; subst; exact R|].
  destruct (step2 x a c) as [x1|] eqn:E; [|discriminate]. eapply IH; [eapply R2S; eauto | exact H].
Qed.

(* the code-level flag (addresses) and the model-level flag (node identities) at the read *)
Definition code_flag (x : st * amap) (p : nat) : bool :=
  let (s, ad) := x in Nat.eqb (ad (tail s)) (ad (qprev (P s p))).
Definition model_flag (x : st * amap) (p : nat) : bool :=
  let (s, ad) := x in Nat.eqb (tail s) (qprev (P s p)).

(* ---- 1. distinct unfreed nodes have distinct addresses ---- *)
Definition addr_inj (x : st * amap) : Prop :=
  let (s, ad) := x in
  forall i j, i < nn s -> j < nn s -> freed (nd s i) = false -> freed (nd s j) = false -> ad i = ad j -> i = j.

(* a transition never un-frees a node, and allocates at most the node [nn s] *)
Lemma step_freed_mono s a s' : Inv s -> step s a = Some s' ->
  (forall k, k < nn s -> freed (nd s' k) = false -> freed (nd s k) = false) /\
  ((nn s' = nn s) \/ (nn s' = S (nn s) /\ exists p, a = PStep p /\ qp (P s p) = Q0)).
Proof.
  intros Hi H. step_cases H; cbn; (split; [|first [left; reflexivity | right; split; [reflexivity | eexists; split; [reflexivity | assumption]]]]).
  all: intros k Hk; repeat (progress (upd_tac; cbn)); auto.
  all: try (intros Hf; apply orb_false_elim in Hf; destruct Hf as (Hf & _); try apply orb_false_elim in Hf; try destruct Hf as (Hf & _); assumption).
  all: try lia.
Qed.

Lemma addr_inj_reach x : Reach2 x -> addr_inj x.
Proof.
  induction 1 as [|[s ad] a c [s' ad'] R IH H].
  - cbn. intros i j Hi Hj. lia.
  - pose proof (reach2_reach _ R) as Rs. cbn in Rs. destruct (inv_reach s Rs) as (Hi & _).
    pose proof (step2_base _ _ _ _ _ _ _ H) as Hs.
    destruct (step_freed_mono s a s' Hi Hs) as (Hm & Hn).
    unfold addr_inj in *. unfold step2, step2g in H. rewrite Hs in H.
    assert (Hold : ad' = ad -> nn s' = nn s -> forall i j, i < nn s' -> j < nn s' -> freed (nd s' i) = false -> freed (nd s' j) = false -> ad' i = ad' j -> i = j).
    { intros -> En i j Li Lj Fi Fj E. rewrite En in *. apply IH; auto. }
    destruct Hn as [En | (En & p & -> & Eq)].
    + destruct a; try (apply Hold; auto; injection H; auto).
      destruct (qp (P s p)) eqn:Eq; try (apply Hold; auto; cbn in H; injection H; auto).
      exfalso. assert (nn s' = S (nn s)) by (unfold step in Hs; rewrite Eq in Hs; inversion Hs; reflexivity). lia.
    + rewrite Eq in H. destruct (addr_free s ad c) eqn:Ef; [|discriminate]. inversion H; subst ad'. clear H.
      unfold addr_free in Ef. rewrite forallb_forall in Ef.
      assert (Hfree : forall k, k < nn s -> freed (nd s k) = false -> ad k <> c).
      { intros k Lk Fk Ec. specialize (Ef k ltac:(apply in_seq; lia)). rewrite Fk, Ec, Nat.eqb_refl in Ef. discriminate. }
      intros i j Li Lj Fi Fj E. rewrite En in *.
      destruct (Nat.eq_dec i (nn s)) as [ei|ni]; destruct (Nat.eq_dec j (nn s)) as [ej|nj]; try congruence.
      * rewrite ei, upd_eq, upd_neq in E by assumption. exfalso. apply (Hfree j ltac:(lia) (Hm j ltac:(lia) Fj)). congruence.
      * rewrite ej, upd_eq, upd_neq in E by assumption. exfalso. apply (Hfree i ltac:(lia) (Hm i ltac:(lia) Fi)). congruence.
      * rewrite !upd_neq in E by assumption. apply IH; auto; try lia; apply Hm; auto; lia.
Qed.

(* at the producer's read of the consumer position the code's address comparison is the identity comparison *)
Theorem code_flag_is_model_flag x p : Reach2 x -> qp (P (fst x) p) = Q2 -> code_flag x p = model_flag x p.
Proof.
  intros R Eq. pose proof (addr_inj_reach x R) as Hinj. pose proof (reach2_reach x R) as Rs.
  destruct x as [s ad]. cbn in *. destruct (inv_reach s Rs) as (Hi & H2).
  pfacts Hi p. cbn in Hp4. destruct (Hp8 ltac:(lia)) as (Hn1 & Hn2 & Hn3 & Hn4).
  destruct (G1 _ Hi) as (_&g2&g3&_). destruct (G2 _ Hi) as (t1 & _).
  assert (Lt : tail s < nn s) by lia. assert (La : qprev (P s p) < nn s) by lia.
  destruct (live_not_freed s (tail s) H2 Lt (or_introl t1)) as (ft & _).
  destruct (live_not_freed s _ H2 La (or_introl Hn3)) as (fa & _).
  destruct (Nat.eqb_spec (tail s) (qprev (P s p))) as [e|ne].
  - rewrite e. apply Nat.eqb_refl.
  - apply Nat.eqb_neq. intro E. apply ne. apply Hinj; auto.
Qed.

(* ---- 2. push before the fix: the witness ---- *)
Definition step2_old := step2g step_old.
Inductive Reach2_old : st * amap -> Prop :=
| R20o : Reach2_old init2
| R2So x a c x' : Reach2_old x -> step2_old x a c = Some x' -> Reach2_old x'.
Fixpoint run2_old (x : st * amap) (l : list (action * nat)) : option (st * amap) :=
  match l with [] => Some x | (a, c) :: l' => match step2_old x a c with Some x' => run2_old x' l' | None => None end end.
Lemma run2_old_reach l : forall x x', Reach2_old x -> run2_old x l = Some x' -> Reach2_old x'.
Proof.
  induction l as [|[a c] l IH]; cbn; intros x x' R H; [inversion H; subst; exact R|].
  destruct (step2_old x a c) as [x1|] eqn:E; [|discriminate]. eapply IH; [eapply R2So; eauto | exact H].
Qed.

Definition aba_schedule : list (action * nat) :=
  let push p c := [(Push p, 0); (PStep p, c); (PStep p, 0); (PStep p, 0); (PStep p, 0)] in
  let pop := [(Pop, 0); (KStep false, 0); (KStep false, 0); (KStep false, 0)] in
  push 0 1                                                      (* node 1 at address 1 *)
  ++ [(Push 1, 0); (PStep 1, 2); (PStep 1, 0); (PStep 1, 0)]    (* node 2 at address 2 behind node 1, linked; producer 1 now before its (late) tail read *)
  ++ pop ++ pop                                                 (* both entries popped: node 1 passed *)
  ++ [(DropH 1, 0)]                                             (* its handle dropped: node 1 freed *)
  ++ push 2 1                                                   (* node 3 re-uses address 1 *)
  ++ pop.                                                       (* ... and becomes the stub *)

(* before the fix, claim (c) fails for the flag the code computes: producer 1 would report is_head = true although
   its entry (node 2) was consumed and is not even in the list any more; with node identities the flag is false *)
Theorem head_report_c_refuted_under_address_reuse :
  exists x, Reach2_old x /\
    match qp (P (fst x) 1) with Q3 => true | _ => false end = true /\
    code_flag x 1 = true /\ model_flag x 1 = false /\
    cons (nodes (fst x) (qn (P (fst x) 1))) = 1.
Proof.
  destruct (run2_old init2 aba_schedule) as [x|] eqn:E; [|vm_compute in E; discriminate].
  exists x. split; [eapply run2_old_reach; [apply R20o | exact E]|].
  vm_compute in E. inversion E; subst. vm_compute. repeat split; reflexivity.
Qed.
