(* BFS over the extracted Coq model (design aid).  usage: explore K N [maxstates] *)
open Model
let rec n2i = function O -> 0 | S n -> 1 + n2i n
let rec i2n i = if i = 0 then O else S (i2n (i-1))
let key k s = String.concat "," (List.map (fun n -> string_of_int (n2i n)) (dump k s))
let () =
  let k = int_of_string Sys.argv.(1) and nmax = int_of_string Sys.argv.(2) in
  let limit = if Array.length Sys.argv > 3 then int_of_string Sys.argv.(3) else 5_000_000 in
  let noops = Array.length Sys.argv > 4 in
  let monly = Array.length Sys.argv > 5 in   (* fewer consumer observers *)
  let kn = i2n k in
  let seen = Hashtbl.create 1000003 in
  let q = Queue.create () in
  let add s path = let ky = key kn s in
    if not (Hashtbl.mem seen ky) then begin Hashtbl.add seen ky (); Queue.add (s, path) q end in
  add init [];
  let count = ref 0 and bad = ref 0 in
  let pr_act = function
    | Push p -> Printf.sprintf "Push %d" (n2i p) | PStep p -> Printf.sprintf "PStep %d" (n2i p)
    | Pop -> "Pop" | PopIf -> "PopIf" | Peek -> "Peek" | IsEmpty -> "IsEmpty"
    | Remove n -> Printf.sprintf "Remove %d" (n2i n) | DropH n -> Printf.sprintf "DropH %d" (n2i n)
    | IsLink n -> Printf.sprintf "IsLink %d" (n2i n) | KStep b -> Printf.sprintf "KStep %b" b in
  (try while not (Queue.is_empty q) do
    let (s, path) = Queue.pop q in
    incr count;
    if !count > limit then raise Exit;
    if not (if monly then monitors s else inv_b kn s) then begin
      incr bad;
      if !bad <= 3 then begin
        Printf.printf "INVARIANT/MONITOR FAILS (monitors=%b) after: %s\n  dump=%s\n" (monitors s)
          (String.concat "; " (List.rev_map pr_act path)) (key kn s) end end
    else begin
    let nn_i = n2i s.nn in
    let pending = ref 0 in
    for p = 0 to k-1 do if (s.p (i2n p)).qp = Q0 then incr pending done;
    let acts = ref [KStep true; KStep false; Pop; PopIf] in
    if not noops then acts := Peek :: IsEmpty :: !acts;
    for n = 0 to nn_i - 1 do
      acts := Remove (i2n n) :: DropH (i2n n) :: !acts;
      if not noops then acts := IsLink (i2n n) :: !acts done;
    for p = 0 to k-1 do
      acts := PStep (i2n p) :: !acts;
      if nn_i + !pending <= nmax then acts := Push (i2n p) :: !acts done;
    List.iter (fun a -> match step s a with Some s' -> add s' (a :: path) | None -> ()) !acts end
  done with Exit -> Printf.printf "state limit reached\n");
  Printf.printf "states=%d bad=%d\n" !count !bad
