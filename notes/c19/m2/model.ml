
(** val implb : bool -> bool -> bool **)

let implb b1 b2 =
  if b1 then b2 else true

(** val negb : bool -> bool **)

let negb = function
| true -> false
| false -> true

type nat =
| O
| S of nat

(** val app : 'a1 list -> 'a1 list -> 'a1 list **)

let rec app l m =
  match l with
  | [] -> m
  | a :: l1 -> a :: (app l1 m)

(** val pred : nat -> nat **)

let pred n = match n with
| O -> n
| S u -> u

(** val add : nat -> nat -> nat **)

let rec add n m =
  match n with
  | O -> m
  | S p0 -> S (add p0 m)

(** val eqb : bool -> bool -> bool **)

let eqb b1 b2 =
  if b1 then b2 else if b2 then false else true

module Nat =
 struct
  (** val eqb : nat -> nat -> bool **)

  let rec eqb n m =
    match n with
    | O -> (match m with
            | O -> true
            | S _ -> false)
    | S n' -> (match m with
               | O -> false
               | S m' -> eqb n' m')

  (** val leb : nat -> nat -> bool **)

  let rec leb n m =
    match n with
    | O -> true
    | S n' -> (match m with
               | O -> false
               | S m' -> leb n' m')

  (** val ltb : nat -> nat -> bool **)

  let ltb n m =
    leb (S n) m
 end

(** val flat_map : ('a1 -> 'a2 list) -> 'a1 list -> 'a2 list **)

let rec flat_map f = function
| [] -> []
| x :: t -> app (f x) (flat_map f t)

(** val existsb : ('a1 -> bool) -> 'a1 list -> bool **)

let rec existsb f = function
| [] -> false
| a :: l0 -> (||) (f a) (existsb f l0)

(** val forallb : ('a1 -> bool) -> 'a1 list -> bool **)

let rec forallb f = function
| [] -> true
| a :: l0 -> (&&) (f a) (forallb f l0)

(** val seq : nat -> nat -> nat list **)

let rec seq start = function
| O -> []
| S len0 -> start :: (seq (S start) len0)

type node = { nprev : nat option; nnext : nat option; nval : bool;
              nlink : bool; refs : nat; freed : bool; stage : nat;
              inch : bool; gpred : nat; cons : nat; byrem : bool; ret : 
              bool; hnd : bool; own : nat }

(** val w_prev : nat option -> node -> node **)

let w_prev v d =
  { nprev = v; nnext = d.nnext; nval = d.nval; nlink = d.nlink; refs =
    d.refs; freed = d.freed; stage = d.stage; inch = d.inch; gpred = d.gpred;
    cons = d.cons; byrem = d.byrem; ret = d.ret; hnd = d.hnd; own = d.own }

(** val w_next : nat option -> node -> node **)

let w_next v d =
  { nprev = d.nprev; nnext = v; nval = d.nval; nlink = d.nlink; refs =
    d.refs; freed = d.freed; stage = d.stage; inch = d.inch; gpred = d.gpred;
    cons = d.cons; byrem = d.byrem; ret = d.ret; hnd = d.hnd; own = d.own }

(** val w_link : bool -> node -> node **)

let w_link v d =
  { nprev = d.nprev; nnext = d.nnext; nval = d.nval; nlink = v; refs =
    d.refs; freed = d.freed; stage = d.stage; inch = d.inch; gpred = d.gpred;
    cons = d.cons; byrem = d.byrem; ret = d.ret; hnd = d.hnd; own = d.own }

(** val w_stage : nat -> node -> node **)

let w_stage v d =
  { nprev = d.nprev; nnext = d.nnext; nval = d.nval; nlink = d.nlink; refs =
    d.refs; freed = d.freed; stage = v; inch = d.inch; gpred = d.gpred;
    cons = d.cons; byrem = d.byrem; ret = d.ret; hnd = d.hnd; own = d.own }

(** val w_gpred : nat -> node -> node **)

let w_gpred v d =
  { nprev = d.nprev; nnext = d.nnext; nval = d.nval; nlink = d.nlink; refs =
    d.refs; freed = d.freed; stage = d.stage; inch = d.inch; gpred = v;
    cons = d.cons; byrem = d.byrem; ret = d.ret; hnd = d.hnd; own = d.own }

(** val w_ret : bool -> node -> node **)

let w_ret v d =
  { nprev = d.nprev; nnext = d.nnext; nval = d.nval; nlink = d.nlink; refs =
    d.refs; freed = d.freed; stage = d.stage; inch = d.inch; gpred = d.gpred;
    cons = d.cons; byrem = d.byrem; ret = v; hnd = d.hnd; own = d.own }

(** val w_take : bool -> node -> node **)

let w_take rm d =
  { nprev = d.nprev; nnext = d.nnext; nval = false; nlink = d.nlink; refs =
    d.refs; freed = d.freed; stage = d.stage; inch = d.inch; gpred = d.gpred;
    cons = (S d.cons); byrem = rm; ret = d.ret; hnd = d.hnd; own = d.own }

(** val w_unchain : node -> node **)

let w_unchain d =
  { nprev = d.nprev; nnext = d.nnext; nval = d.nval; nlink = false; refs =
    (pred d.refs); freed = ((||) d.freed (Nat.eqb d.refs (S O))); stage =
    d.stage; inch = false; gpred = d.gpred; cons = d.cons; byrem = d.byrem;
    ret = d.ret; hnd = d.hnd; own = d.own }

(** val w_drop : node -> node **)

let w_drop d =
  { nprev = d.nprev; nnext = d.nnext; nval = d.nval; nlink = d.nlink; refs =
    (pred d.refs); freed = ((||) d.freed (Nat.eqb d.refs (S O))); stage =
    d.stage; inch = d.inch; gpred = d.gpred; cons = d.cons; byrem = d.byrem;
    ret = d.ret; hnd = false; own = d.own }

type ppc =
| QIdle
| Q0
| Q1
| Q2
| Q3

type pst = { qp : ppc; qn : nat; qprev : nat; qempty : bool; qclk : nat;
             qhead : bool }

type kpc =
| KIdle
| KP0 of bool
| KP1 of bool
| KP2
| KK0
| KK1
| KE0
| KR1
| KR2

type st = { nodes : (nat -> node); nn : nat; head : nat; tail : nat;
            p : (nat -> pst); kp : kpc; kn : nat; kx : nat;
            kres : nat option; kbool : bool; kclock : nat; lastpop : 
            nat; bad_order : bool; bad_head : bool; bad_val : bool;
            bad_mem : bool }

(** val upd : (nat -> 'a1) -> nat -> 'a1 -> nat -> 'a1 **)

let upd f i v j =
  if Nat.eqb j i then v else f j

(** val s_nodes : (nat -> node) -> st -> st **)

let s_nodes f s =
  { nodes = f; nn = s.nn; head = s.head; tail = s.tail; p = s.p; kp = s.kp;
    kn = s.kn; kx = s.kx; kres = s.kres; kbool = s.kbool; kclock = s.kclock;
    lastpop = s.lastpop; bad_order = s.bad_order; bad_head = s.bad_head;
    bad_val = s.bad_val; bad_mem = s.bad_mem }

(** val s_P : (nat -> pst) -> st -> st **)

let s_P f s =
  { nodes = s.nodes; nn = s.nn; head = s.head; tail = s.tail; p = f; kp =
    s.kp; kn = s.kn; kx = s.kx; kres = s.kres; kbool = s.kbool; kclock =
    s.kclock; lastpop = s.lastpop; bad_order = s.bad_order; bad_head =
    s.bad_head; bad_val = s.bad_val; bad_mem = s.bad_mem }

(** val s_k : kpc -> nat -> nat -> st -> st **)

let s_k pc n x s =
  { nodes = s.nodes; nn = s.nn; head = s.head; tail = s.tail; p = s.p; kp =
    pc; kn = n; kx = x; kres = s.kres; kbool = s.kbool; kclock = (S
    s.kclock); lastpop = s.lastpop; bad_order = s.bad_order; bad_head =
    s.bad_head; bad_val = s.bad_val; bad_mem = s.bad_mem }

(** val s_res : nat option -> st -> st **)

let s_res r s =
  { nodes = s.nodes; nn = s.nn; head = s.head; tail = s.tail; p = s.p; kp =
    s.kp; kn = s.kn; kx = s.kx; kres = r; kbool = s.kbool; kclock = s.kclock;
    lastpop = s.lastpop; bad_order = s.bad_order; bad_head = s.bad_head;
    bad_val = s.bad_val; bad_mem = s.bad_mem }

(** val s_bool : bool -> st -> st **)

let s_bool b s =
  { nodes = s.nodes; nn = s.nn; head = s.head; tail = s.tail; p = s.p; kp =
    s.kp; kn = s.kn; kx = s.kx; kres = s.kres; kbool = b; kclock = s.kclock;
    lastpop = s.lastpop; bad_order = s.bad_order; bad_head = s.bad_head;
    bad_val = s.bad_val; bad_mem = s.bad_mem }

(** val s_alloc : nat -> st -> st **)

let s_alloc n s =
  { nodes = s.nodes; nn = (S n); head = n; tail = s.tail; p = s.p; kp = s.kp;
    kn = s.kn; kx = s.kx; kres = s.kres; kbool = s.kbool; kclock = s.kclock;
    lastpop = s.lastpop; bad_order = s.bad_order; bad_head = s.bad_head;
    bad_val = s.bad_val; bad_mem = s.bad_mem }

(** val s_tail : nat -> bool -> st -> st **)

let s_tail x bo s =
  { nodes = s.nodes; nn = s.nn; head = s.head; tail = x; p = s.p; kp = s.kp;
    kn = s.kn; kx = s.kx; kres = s.kres; kbool = s.kbool; kclock = s.kclock;
    lastpop = x; bad_order = ((||) s.bad_order bo); bad_head = s.bad_head;
    bad_val = s.bad_val; bad_mem = s.bad_mem }

(** val s_bhead : bool -> st -> st **)

let s_bhead b s =
  { nodes = s.nodes; nn = s.nn; head = s.head; tail = s.tail; p = s.p; kp =
    s.kp; kn = s.kn; kx = s.kx; kres = s.kres; kbool = s.kbool; kclock =
    s.kclock; lastpop = s.lastpop; bad_order = s.bad_order; bad_head =
    ((||) s.bad_head b); bad_val = s.bad_val; bad_mem = s.bad_mem }

(** val s_bval : bool -> st -> st **)

let s_bval b s =
  { nodes = s.nodes; nn = s.nn; head = s.head; tail = s.tail; p = s.p; kp =
    s.kp; kn = s.kn; kx = s.kx; kres = s.kres; kbool = s.kbool; kclock =
    s.kclock; lastpop = s.lastpop; bad_order = s.bad_order; bad_head =
    s.bad_head; bad_val = ((||) s.bad_val b); bad_mem = s.bad_mem }

(** val s_bmem : bool -> st -> st **)

let s_bmem b s =
  { nodes = s.nodes; nn = s.nn; head = s.head; tail = s.tail; p = s.p; kp =
    s.kp; kn = s.kn; kx = s.kx; kres = s.kres; kbool = s.kbool; kclock =
    s.kclock; lastpop = s.lastpop; bad_order = s.bad_order; bad_head =
    s.bad_head; bad_val = s.bad_val; bad_mem = ((||) s.bad_mem b) }

(** val deref : nat list -> st -> st **)

let deref l s =
  s_bmem (existsb (fun n -> (s.nodes n).freed) l) s

(** val modn : nat -> (node -> node) -> st -> st **)

let modn n f s =
  s_nodes (upd s.nodes n (f (s.nodes n))) s

(** val fresh : nat -> nat -> node **)

let fresh h p0 =
  { nprev = None; nnext = None; nval = true; nlink = true; refs = (S (S O));
    freed = false; stage = (S (S O)); inch = true; gpred = h; cons = O;
    byrem = false; ret = false; hnd = true; own = p0 }

type action =
| Push of nat
| PStep of nat
| Pop
| PopIf
| Peek
| IsEmpty
| Remove of nat
| DropH of nat
| IsLink of nat
| KStep of bool

(** val has_handle : st -> nat -> bool **)

let has_handle s n =
  (&&) (s.nodes n).ret (s.nodes n).hnd

(** val step : st -> action -> st option **)

let step s = function
| Push p0 ->
  (match (s.p p0).qp with
   | QIdle ->
     Some
       (s_P
         (upd s.p p0 { qp = Q0; qn = O; qprev = O; qempty = false; qclk = O;
           qhead = false }) s)
   | _ -> None)
| PStep p0 ->
  let x = s.p p0 in
  (match x.qp with
   | QIdle -> None
   | Q0 ->
     let n = s.nn in
     Some
     (s_P
       (upd s.p p0 { qp = Q1; qn = n; qprev = s.head; qempty =
         (Nat.eqb s.head s.tail); qclk = s.kclock; qhead = false })
       (s_alloc n (s_nodes (upd s.nodes n (fresh s.head p0)) s)))
   | Q1 ->
     Some
       (s_P
         (upd s.p p0 { qp = Q2; qn = x.qn; qprev = x.qprev; qempty =
           x.qempty; qclk = x.qclk; qhead = x.qhead })
         (modn x.qn (fun d -> w_stage (S O) (w_prev (Some x.qprev) d))
           (deref (x.qn :: []) s)))
   | Q2 ->
     let nd = s.nodes x.qn in
     let flag = Nat.eqb s.tail x.qprev in
     let fresh0 = Nat.eqb nd.cons O in
     let claimA = implb ((&&) x.qempty fresh0) flag in
     let claimC =
       implb flag ((&&) ((&&) fresh0 nd.inch) (Nat.eqb nd.gpred s.tail))
     in
     let claimD = implb (Nat.eqb x.qclk s.kclock) (eqb flag x.qempty) in
     Some
     (s_P
       (upd s.p p0 { qp = Q3; qn = x.qn; qprev = x.qprev; qempty = x.qempty;
         qclk = x.qclk; qhead = flag })
       (s_bhead (negb ((&&) ((&&) claimA claimC) claimD)) s))
   | Q3 ->
     Some
       (s_P
         (upd s.p p0 { qp = QIdle; qn = x.qn; qprev = x.qprev; qempty =
           x.qempty; qclk = x.qclk; qhead = x.qhead })
         (modn x.qn (w_ret true)
           (modn x.qn (w_stage O)
             (modn x.qprev (w_next (Some x.qn)) (deref (x.qprev :: []) s))))))
| Pop -> (match s.kp with
          | KIdle -> Some (s_k (KP0 false) O O s)
          | _ -> None)
| PopIf -> (match s.kp with
            | KIdle -> Some (s_k (KP0 true) O O s)
            | _ -> None)
| Peek -> (match s.kp with
           | KIdle -> Some (s_k KK0 O O s)
           | _ -> None)
| IsEmpty -> (match s.kp with
              | KIdle -> Some (s_k KE0 O O s)
              | _ -> None)
| Remove n ->
  (match s.kp with
   | KIdle ->
     if has_handle s n
     then let nd = s.nodes n in
          if (&&) nd.nlink
               (match nd.nprev with
                | Some _ -> true
                | None -> false)
          then Some (s_k KR1 n O (deref (n :: []) s))
          else Some
                 (s_res None
                   (s_k KIdle O O (modn n w_drop (deref (n :: []) s))))
     else None
   | _ -> None)
| DropH n ->
  (match s.kp with
   | KIdle ->
     if has_handle s n
     then Some (s_k KIdle O O (modn n w_drop (deref (n :: []) s)))
     else None
   | _ -> None)
| IsLink n ->
  (match s.kp with
   | KIdle ->
     if has_handle s n
     then Some (s_bool (s.nodes n).nlink (s_k KIdle O O (deref (n :: []) s)))
     else None
   | _ -> None)
| KStep yes ->
  (match s.kp with
   | KIdle -> None
   | KP0 pi ->
     if Nat.eqb s.head s.tail
     then Some (s_res None (s_k KIdle O O s))
     else if pi
          then Some (s_k (KP1 true) O O s)
          else Some
                 (s_k (KP1 false) O O
                   (modn s.tail (w_link false)
                     (s_bmem (Nat.eqb (s.nodes s.tail).refs O)
                       (deref (s.tail :: []) s))))
   | KP1 pi ->
     (match (s.nodes s.tail).nnext with
      | Some x ->
        if pi
        then let s1 =
               s_bval ((||) (s.nodes s.tail).nval (negb (s.nodes x).nval))
                 (deref (s.tail :: (x :: [])) s)
             in
             if yes
             then Some (s_k KP2 x O s1)
             else Some (s_res None (s_k KIdle O O s1))
        else Some (s_k KP2 x O (deref (s.tail :: []) s))
      | None -> Some (s_k (KP1 pi) O O (deref (s.tail :: []) s)))
   | KP2 ->
     let x = s.kn in
     let t = s.tail in
     let s1 =
       s_bval ((||) (s.nodes t).nval (negb (s.nodes x).nval))
         (s_bmem (Nat.eqb (s.nodes t).refs O) (deref (t :: (x :: [])) s))
     in
     Some
     (s_res (Some x)
       (s_k KIdle O O
         (s_tail x (Nat.leb x s.lastpop)
           (modn x (fun d -> w_take false (w_prev None d))
             (modn t w_unchain s1)))))
   | KK0 ->
     if Nat.eqb s.head s.tail
     then Some (s_res None (s_k KIdle O O s))
     else Some (s_k KK1 O O s)
   | KK1 ->
     (match (s.nodes s.tail).nnext with
      | Some x ->
        Some
          (s_res (Some x)
            (s_k KIdle O O
              (s_bval ((||) (s.nodes s.tail).nval (negb (s.nodes x).nval))
                (deref (s.tail :: (x :: [])) s))))
      | None -> Some (s_k KK1 O O (deref (s.tail :: []) s)))
   | KE0 -> Some (s_bool (Nat.eqb s.head s.tail) (s_k KIdle O O s))
   | KR1 ->
     let n = s.kn in
     (match (s.nodes n).nnext with
      | Some x -> Some (s_k KR2 n x (deref (n :: []) s))
      | None ->
        Some (s_res None (s_k KIdle O O (modn n w_drop (deref (n :: []) s)))))
   | KR2 ->
     let n = s.kn in
     let x = s.kx in
     (match (s.nodes n).nprev with
      | Some pr ->
        let s1 =
          s_bval (negb (s.nodes n).nval) (deref (n :: (pr :: (x :: []))) s)
        in
        Some
        (s_res (Some n)
          (s_k KIdle O O
            (modn pr (w_next (Some x))
              (modn x (fun d -> w_gpred pr (w_prev (Some pr) d))
                (modn n (fun d -> w_drop (w_take true (w_unchain d))) s1)))))
      | None -> None))

(** val stub : node **)

let stub =
  { nprev = None; nnext = None; nval = false; nlink = false; refs = (S O);
    freed = false; stage = O; inch = true; gpred = O; cons = O; byrem =
    false; ret = false; hnd = false; own = O }

(** val unalloc : node **)

let unalloc =
  { nprev = None; nnext = None; nval = false; nlink = false; refs = O;
    freed = false; stage = O; inch = false; gpred = O; cons = O; byrem =
    false; ret = false; hnd = false; own = O }

(** val init : st **)

let init =
  { nodes = (fun n -> if Nat.eqb n O then stub else unalloc); nn = (S O);
    head = O; tail = O; p = (fun _ -> { qp = QIdle; qn = O; qprev = O;
    qempty = false; qclk = O; qhead = false }); kp = KIdle; kn = O; kx = O;
    kres = None; kbool = false; kclock = O; lastpop = O; bad_order = false;
    bad_head = false; bad_val = false; bad_mem = false }

(** val monitors_ok : st -> bool **)

let monitors_ok s =
  (&&) ((&&) ((&&) (negb s.bad_order) (negb s.bad_head)) (negb s.bad_val))
    (negb s.bad_mem)

(** val b2n : bool -> nat **)

let b2n = function
| true -> S O
| false -> O

(** val o2n : nat option -> nat **)

let o2n = function
| Some x -> S x
| None -> O

(** val ppc2n : ppc -> nat **)

let ppc2n = function
| QIdle -> O
| Q0 -> S O
| Q1 -> S (S O)
| Q2 -> S (S (S O))
| Q3 -> S (S (S (S O)))

(** val kpc2n : kpc -> nat **)

let kpc2n = function
| KIdle -> O
| KP0 b -> add (S O) (b2n b)
| KP1 b -> add (S (S (S O))) (b2n b)
| KP2 -> S (S (S (S (S O))))
| KK0 -> S (S (S (S (S (S O)))))
| KK1 -> S (S (S (S (S (S (S O))))))
| KE0 -> S (S (S (S (S (S (S (S O)))))))
| KR1 -> S (S (S (S (S (S (S (S (S O))))))))
| KR2 -> S (S (S (S (S (S (S (S (S (S O)))))))))

(** val dnode : node -> nat list **)

let dnode d =
  (o2n d.nprev) :: ((o2n d.nnext) :: ((b2n d.nval) :: ((b2n d.nlink) :: (d.refs :: (
    (b2n d.freed) :: (d.stage :: ((b2n d.inch) :: (d.gpred :: (d.cons :: (
    (b2n d.byrem) :: ((b2n d.ret) :: ((b2n d.hnd) :: (d.own :: [])))))))))))))

(** val dpst : st -> pst -> nat list **)

let dpst s x =
  (ppc2n x.qp) :: (x.qn :: (x.qprev :: ((b2n x.qempty) :: ((b2n
                                                             (Nat.eqb x.qclk
                                                               s.kclock)) :: (
    (b2n x.qhead) :: [])))))

(** val dump : nat -> st -> nat list **)

let dump k s =
  app
    (s.nn :: (s.head :: (s.tail :: ((kpc2n s.kp) :: (s.kn :: (s.kx :: (
    (o2n s.kres) :: ((b2n s.kbool) :: (s.lastpop :: ((b2n s.bad_order) :: (
    (b2n s.bad_head) :: ((b2n s.bad_val) :: ((b2n s.bad_mem) :: [])))))))))))))
    (app (flat_map (fun n -> dnode (s.nodes n)) (seq O s.nn))
      (flat_map (fun p0 -> dpst s (s.p p0)) (seq O k)))

(** val active : pst -> bool **)

let active x =
  match x.qp with
  | QIdle -> false
  | Q0 -> false
  | _ -> true

(** val stage_of : ppc -> nat **)

let stage_of = function
| Q1 -> S (S O)
| Q2 -> S O
| _ -> O

(** val oeq : nat option -> nat option -> bool **)

let oeq o x =
  Nat.eqb (o2n o) (o2n x)

(** val alln : st -> (nat -> bool) -> bool **)

let alln s f =
  forallb f (seq O s.nn)

(** val imp : bool -> bool -> bool **)

let imp =
  implb

(** val inv_b : nat -> st -> bool **)

let inv_b k s =
  let nd = s.nodes in
  let t = s.tail in
  (&&)
    ((&&)
      ((&&)
        ((&&)
          ((&&)
            ((&&)
              ((&&)
                ((&&)
                  ((&&)
                    ((&&)
                      ((&&)
                        ((&&)
                          ((&&)
                            ((&&)
                              ((&&)
                                ((&&)
                                  ((&&)
                                    ((&&)
                                      ((&&)
                                        ((&&)
                                          ((&&)
                                            ((&&)
                                              ((&&)
                                                ((&&)
                                                  ((&&)
                                                    ((&&)
                                                      (Nat.leb (S O) s.nn)
                                                      (Nat.leb t s.head))
                                                    (Nat.ltb s.head s.nn))
                                                  (Nat.leb s.lastpop t))
                                                (nd t).inch) (nd s.head).inch)
                                            (negb (nd t).nval))
                                          (oeq (nd t).nprev None))
                                        (alln s (fun x ->
                                          imp (nd x).inch
                                            ((&&) (Nat.leb t x)
                                              (Nat.leb x s.head)))))
                                      (monitors_ok s))
                                    (alln s (fun b ->
                                      imp
                                        ((&&) (nd b).inch
                                          (negb (Nat.eqb b t)))
                                        (let g = (nd b).gpred in
                                         (&&)
                                           ((&&)
                                             ((&&)
                                               ((&&)
                                                 ((&&)
                                                   ((&&)
                                                     ((&&)
                                                       ((&&)
                                                         ((&&) (Nat.ltb g b)
                                                           (nd g).inch)
                                                         (alln s (fun x ->
                                                           imp (nd x).inch
                                                             (negb
                                                               ((&&)
                                                                 (Nat.ltb g x)
                                                                 (Nat.ltb x b))))))
                                                       (imp
                                                         (Nat.eqb
                                                           (nd b).stage O)
                                                         (oeq (nd g).nnext
                                                           (Some b))))
                                                     (imp
                                                       (Nat.leb (nd b).stage
                                                         (S O))
                                                       (oeq (nd b).nprev
                                                         (Some g))))
                                                   (imp
                                                     (Nat.eqb (nd b).stage (S
                                                       (S O)))
                                                     (oeq (nd b).nprev None)))
                                                 (nd b).nval) (nd b).nlink)
                                             (Nat.eqb (nd b).cons O))
                                           (Nat.leb (nd b).stage (S (S O)))))))
                                  (alln s (fun a ->
                                    imp (nd a).inch
                                      (match (nd a).nnext with
                                       | Some x ->
                                         (&&)
                                           ((&&)
                                             ((&&) (nd x).inch
                                               (Nat.eqb (nd x).gpred a))
                                             (Nat.eqb (nd x).stage O))
                                           (negb (Nat.eqb x t))
                                       | None -> true))))
                                (alln s (fun n ->
                                  imp (negb (nd n).inch)
                                    ((&&) (negb (nd n).nlink)
                                      (imp (Nat.leb (S O) n)
                                        (Nat.eqb (nd n).cons (S O)))))))
                              (imp (Nat.leb (S O) t)
                                (Nat.eqb (nd t).cons (S O))))
                            (Nat.eqb (nd O).cons O))
                          (alln s (fun n ->
                            imp (nd n).ret
                              ((&&) (Nat.eqb (nd n).stage O)
                                (Nat.leb (S O) n)))))
                        (forallb (fun p0 ->
                          let x = s.p p0 in
                          let n = x.qn in
                          let a = x.qprev in
                          imp (active x)
                            ((&&)
                              ((&&)
                                ((&&)
                                  ((&&)
                                    ((&&)
                                      ((&&)
                                        ((&&)
                                          ((&&)
                                            ((&&)
                                              ((&&) (Nat.ltb a n)
                                                (Nat.ltb n s.nn))
                                              (negb (nd n).ret))
                                            (Nat.eqb (nd n).stage
                                              (stage_of x.qp)))
                                          (imp (nd n).inch
                                            (Nat.leb (nd n).gpred a)))
                                        (imp (negb (nd n).inch) (Nat.ltb n t)))
                                      (imp x.qempty (Nat.leb a t)))
                                    (imp (Nat.leb (S O) (nd n).stage)
                                      ((&&)
                                        ((&&)
                                          ((&&) (oeq (nd a).nnext None)
                                            (Nat.eqb (nd n).gpred a))
                                          (nd a).inch) (nd n).inch)))
                                  (Nat.eqb (nd n).own p0))
                                (Nat.leb x.qclk s.kclock))
                              (imp (Nat.eqb x.qclk s.kclock)
                                (eqb x.qempty (Nat.eqb a t))))) (seq O k)))
                      (forallb (fun p0 ->
                        forallb (fun p' ->
                          imp
                            ((&&)
                              ((&&) (negb (Nat.eqb p0 p')) (active (s.p p0)))
                              (active (s.p p')))
                            (negb (Nat.eqb (s.p p0).qn (s.p p').qn)))
                          (seq O k)) (seq O k)))
                    (imp (Nat.eqb (kpc2n s.kp) (S (S (S (S (S O))))))
                      ((&&)
                        ((&&)
                          ((&&) (nd s.kn).inch (Nat.eqb (nd s.kn).gpred t))
                          (Nat.eqb (nd s.kn).stage O))
                        (negb (Nat.eqb s.kn t)))))
                  (imp
                    ((||)
                      (Nat.eqb (kpc2n s.kp) (S (S (S (S (S (S (S (S (S
                        O))))))))))
                      (Nat.eqb (kpc2n s.kp) (S (S (S (S (S (S (S (S (S (S
                        O))))))))))))
                    ((&&)
                      ((&&) ((&&) (nd s.kn).ret (nd s.kn).hnd)
                        (nd s.kn).nlink) (negb (oeq (nd s.kn).nprev None)))))
                (imp
                  (Nat.eqb (kpc2n s.kp) (S (S (S (S (S (S (S (S (S (S
                    O))))))))))) (oeq (nd s.kn).nnext (Some s.kx))))
              (imp
                ((||)
                  ((||) (Nat.eqb (kpc2n s.kp) (S (S (S O))))
                    (Nat.eqb (kpc2n s.kp) (S (S (S (S O))))))
                  (Nat.eqb (kpc2n s.kp) (S (S (S (S (S (S (S O)))))))))
                (negb (Nat.eqb s.head t)))) (oeq (nd s.head).nnext None))
          (alln s (fun n ->
            (&&)
              (Nat.eqb (nd n).refs (add (b2n (nd n).inch) (b2n (nd n).hnd)))
              (eqb (nd n).freed ((&&) (negb (nd n).inch) (negb (nd n).hnd))))))
        (negb (nd O).hnd))
      (alln s (fun n ->
        imp ((&&) (Nat.leb (S O) n) (negb (nd n).ret)) (nd n).hnd)))
    (alln s (fun n ->
      imp (Nat.leb (S O) (nd n).stage)
        (let x = s.p (nd n).own in
         (&&) (Nat.eqb x.qn n)
           ((||) (Nat.eqb (ppc2n x.qp) (S (S O)))
             (Nat.eqb (ppc2n x.qp) (S (S (S O))))))))

(** val monitors : st -> bool **)

let monitors =
  monitors_ok
