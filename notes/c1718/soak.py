#!/usr/bin/env python3
"""soak.py Cxx N: every variant of props/Cxx.json with seeds 1..N under all its strategies, each run twice (determinism)"""
import json,sys,subprocess,os
prop=json.load(open(f'/verif/props/{sys.argv[1]}.json')); n=sys.argv[2]
for sc in prop['scenarios']:
    for v in sc.get('variants',[{}]):
        env=dict(sc.get('env',{})); env.update(v)
        e=' '.join(f'{k}={x}' for k,x in env.items())
        r=subprocess.run(['python3','/verif/notes/c1718/sweep.py',sc['bin'],n,e]+sc['strategies'],capture_output=True,text=True,env=dict(os.environ,TMO='60'))
        tail=[l for l in r.stdout.splitlines() if l.startswith('rc histogram')]
        print(sc['bin'],e,'->',tail[-1] if tail else r.stdout[-300:],flush=True)
        if 'nondeterministic: 0' not in (tail[-1] if tail else '') or ("{0:" not in tail[-1]) or tail[-1].count(':')>3:
            print(r.stdout[-1500:],flush=True)
