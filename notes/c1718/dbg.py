#!/usr/bin/env python3
"""dbg.py FILE LEMMA [N]: compile a copy of coq/Io/FILE.v in which the proof of LEMMA ends with `Show.` of every open goal (first N fully) and is aborted; later lemmas are dropped"""
import sys,re,subprocess,os
f,lem=sys.argv[1],sys.argv[2]; n=int(sys.argv[3]) if len(sys.argv)>3 else 3
src=open(f'/verif/coq/Io/{f}.v').read()
i=src.index('Lemma '+lem+' ')
j=src.index('Qed.',i)
shows=''.join(f'  {k}: idtac "GOAL {k}"; match goal with |- ?G => idtac G end.\n' for k in [])
body=src[:j]+f'  all: (let n := numgoals in idtac "OPEN GOALS:" n).\n  Show.\n'+''.join(f'  Show {k}.\n' for k in range(2,n+1))+'Abort.\n'
open('/tmp/dbg_'+f+'.v','w').write(body)
r=subprocess.run(f'coqc -Q /verif/coq MayV /tmp/dbg_{f}.v',shell=True,capture_output=True,text=True)
out=r.stdout+r.stderr
print(out[-int(os.environ.get('TAIL','6000')):])
