//! Stand-alone demonstration (plain `may`, no verification hooks): dropping one half of a split
//! `may::os::unix::net::UnixStream` while the other half is alive leaves a dangling epoll registration.
//!
//! `CoIo { inner, io, .. }` drops `inner` first: the descriptor is closed *before* `IoData::drop -> del_fd` issues
//! EPOLL_CTL_DEL, which therefore fails with EBADF (ignored).  Normally the close itself removes the registration,
//! but the other half is a `dup` of the same socket, so the open file description lives on and epoll keeps
//! reporting events with `data` = the address of the `EventData` that `free_unused_event_data` has freed in the
//! meantime.  `Selector::select` then does `io_flag.fetch_or(events)`, `co.take()`, `timer.borrow_mut()` on freed
//! memory.  Here the freed block is re-used by zero-filled boxes of the same size class; after the peer hangs up
//! one of them is no longer zero: the selector wrote the event bits into it.
use may::io::SplitIo;
use may::os::unix::net::UnixStream;
use std::time::Duration;

fn main() {
    may::config().set_workers(1);
    let (a, b) = UnixStream::pair().unwrap();
    let (ar, aw) = a.split().unwrap();
    // drop the write half: fd closed, EPOLL_CTL_DEL fails, registration (EPOLLOUT|EPOLLHUP|ET) stays
    drop(aw);
    // let the selector run free_unused_event_data
    std::thread::sleep(Duration::from_millis(100));
    // re-use the freed block (Arc<EventData> is 56 bytes); it was freed by the worker thread, so allocate there
    let mut boxes: Vec<Box<[u64; 7]>> = may::go!(|| (0..20000).map(|_| Box::new([0u64; 7])).collect()).join().unwrap();
    // an edge on the socket: the peer goes away -> EPOLLHUP (and EPOLLOUT) for the stale registration
    drop(b);
    std::thread::sleep(Duration::from_millis(100));
    let dirty: Vec<(usize, [u64; 7])> = boxes.iter().enumerate().filter(|(_, b)| b.iter().any(|&w| w != 0)).map(|(i, b)| (i, **b)).collect();
    for (i, b) in &dirty {
        println!("box {i} was written through a dangling EventData pointer: {b:x?}");
    }
    if dirty.is_empty() {
        println!("no box was modified (the freed block was not re-used in this run)");
    }
    boxes.clear();
    drop(ar);
    std::process::exit(if dirty.is_empty() { 0 } else { 1 });
}
