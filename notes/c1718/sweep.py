#!/usr/bin/env python3
"""sweep.py BIN N 'K=V K=V ...' [strategies...]  : run seeds 1..N, twice each, report non-zero exits and non-determinism"""
import os, subprocess, sys, concurrent.futures as cf, collections
bin_, n = sys.argv[1], int(sys.argv[2])
env0 = dict(kv.split("=", 1) for kv in sys.argv[3].split()) if len(sys.argv) > 3 and sys.argv[3] else {}
strats = sys.argv[4:] or ["random", "pct:2:300", "sticky:6"]
exe = os.environ.get("BINDIR", "/verif/.cache/target/debug") + "/" + bin_  # callers hold flock -s /tmp/repo.lock
def one(job):
    seed, st = job
    env = dict(os.environ, **env0, MAYV_SEED=str(seed), MAYV_STRATEGY=st)
    outs = []
    for _ in range(2 if not os.environ.get("ONCE") else 1):
        try:
            p = subprocess.run([exe], env=env, stdout=subprocess.PIPE, stderr=subprocess.STDOUT, text=True, timeout=int(os.environ.get('TMO','40')))
            outs.append((p.returncode, p.stdout))
        except subprocess.TimeoutExpired as e:
            outs.append((124, "WALLTIMEOUT"))
    return seed, st, outs
jobs = [(s, st) for s in range(1, n + 1) for st in strats]
rcs = collections.Counter(); nd = 0; shown = 0
with cf.ThreadPoolExecutor(max_workers=int(os.environ.get("J", "12"))) as ex:
    for seed, st, outs in ex.map(one, jobs):
        rcs[outs[0][0]] += 1
        if len(outs) > 1 and outs[0] != outs[1]:
            nd += 1
            if shown < 6:
                shown += 1
                print(f"NONDET seed={seed} {st}:\n  A rc={outs[0][0]} {outs[0][1].strip()[-300:]}\n  B rc={outs[1][0]} {outs[1][1].strip()[-300:]}")
        if outs[0][0] != 0 and shown < 12:
            shown += 1
            print(f"FAIL seed={seed} {st} rc={outs[0][0]}\n   " + "\n   ".join(outs[0][1].strip().splitlines()[-8:]))
print("rc histogram:", dict(rcs), "nondeterministic:", nd, "of", len(jobs))
