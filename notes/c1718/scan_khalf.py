#!/usr/bin/env python3
"""scan_khalf.py [dir]: report raw traces (dir/*.trace, default /tmp/tr) in which the kernel half of an I/O `subscribe`
(kernel=1 records in src/io/sys/unix/net/*.rs) still runs after the coroutine it belongs to has finished (co.done):
the kernel half then dereferences `io_data`, a reference into the socket the coroutine owned and has dropped.
Produce the traces with e.g.
  for s in $(seq 1 30); do timeout 20 env MAYV_MODE=tdrop MAYV_FDSKEW=1 MAYV_SCHED_FILES=src/io/sys/unix/net/socket_read.rs \
      MAYV_STALL=2:30000000 MAYV_WORKERS=2 MAYV_SEED=$s MAYV_TRACE=/tmp/tr/c$s.trace /verif/.cache/target/debug/s_iotimeout; done
(runs that exceed the wall-clock timeout are an artefact of MAYV_SCHED_FILES: a spin loop outside the listed files never yields the baton)"""
import sys,glob,re
hits=0
for f in sorted(glob.glob((sys.argv[1] if len(sys.argv)>1 else '/tmp/tr')+'/*.trace')):
    done=set(); 
    for ln,l in enumerate(open(f)):
        p=l.split(' ')
        if len(p)<9: continue
        if p[4]=='co.done': done.add(p[5])
        if p[2]=='1' and p[1] in done and 'io/sys/unix/net/' in p[3]:
            print(f, ln+1, l.strip()[:150]); hits+=1; break
print("hits",hits)
